#!/venv/bin/python
"""Regenerates MANIFEST.json from the table below (kept in one place so it stays valid)."""
import json, os
HERE = os.path.dirname(os.path.abspath(__file__))
props = [json.loads(l) for l in open(os.path.join(HERE, 'properties.jsonl'))]
ids = [p['id'] for p in props]

CLAIMED = {
 'C15': dict(engine='E4', technique='explicit-state BFS over all battery operation sequences up to a depth, executed on the real methods, compared with the builtin after every step',
             text='All operation sequences over small argument domains up to depth 6 (quick) / 8 (thorough) on every battery, merged on contents; return value / exception class / contents / read accessors compared with int, list, dict, set, bounded deque, bounded heap after every operation.',
             note='argument domains {0,1,2}/{a,b}; ReplSet.pop compared as "some member"; full() only for maxsize>0; hash order across differently seeded processes is out of reach',
             ref='4/C15'),
 'C08': dict(engine='E4', technique='explicit-state BFS over journal operation sequences on the real FileJournal over a simulated file system, kill injected before every OS-visible mutation of every operation in every state',
             text='All sequences of add(boundary-dense sizes incl. 2.5x file size)/deleteEntriesFrom/deleteEntriesTo/clear/setRaftCommitIndex/timer/reopen up to depth 4 with crash points + depth 5 without (quick), 6/7 (thorough), merged on contents+file size+meta; equality with a list in every state and after a clean reopen; crash oracle (contiguous range keeping what the operation keeps, append all-or-nothing, commit index one that was set) at every kill point.',
             note='process-kill crash model (no torn stores, no reordering, Python-level buffers lost); simulated open/mmap/rename validated byte-for-byte against real files by a pristine copy of journal.py on all sequences up to depth 2 (quick) / 3 (thorough)',
             ref='4/C08'),
}
RAFT_TECH = 'explicit-state BFS over worlds of real SyncObj nodes (every transition = one real tick / message handler / notification / API call), ghost-state monitors on every transition and state'
RAFT_NOTE = 'environment model: per-link FIFO SimTransport, per-node virtual clocks, election timeout answered by the explorer; bounds = per-job event budgets from scripted seed states (evidence lists every job with its budget, state and transition counts); full alphabet for 2-3 voters, election alphabet for 4-5'
for pid, txt, ref in [
  ('C01', 'All schedules within the per-job budgets (elections, heartbeats, submissions, drops, reconnects, compactions) from seeds fresh/steady/lagging/lagging+snapshot/deposed/deposed+snapshot/pending/pipeline/forwarded/fig8; oracle in every state: each node object state equals the replay of the common sequence up to its applied index (no skip/repeat/reorder, also after snapshot install), position -> command is a function across nodes and time.', '4/C01'),
  ('C02', 'Same schedules; oracle on every callback: at most once per submission; SUCCESS(r) => applied at exactly one position with r the reference result and never applied twice; negative answers => never applied on any node in any later state.', '4/C02'),
  ('C03', 'Same schedules with election-heavy budgets; oracle: leaders[term] single-valued over the whole history, votes[(voter,term)] single-valued at the wire, at every become-leader transition every entry committed under an earlier term is in the new leader log or under its snapshot.', '4/C03'),
  ('C04', 'Same schedules; oracle: at the transition at which any node commit index advances over p a majority of voters stores that (term, command) at p; every committed position stays on a majority in every state; a committed position never shows another entry on a node reporting it committed; commit/applied indices monotone; log matching between all node pairs.', '4/C04'),
]:
    CLAIMED[pid] = dict(engine='E1', technique=RAFT_TECH, text=txt, note=RAFT_NOTE, ref=ref)
NOT_YET = {}
for i in ids:
    if i not in CLAIMED:
        NOT_YET[i] = 'check not built yet in this revision of /verif (planned, see DESIGN.md section 4); not claimed until it runs green'

checks = []
for i in ids:
    if i in CLAIMED:
        c = CLAIMED[i]
        checks.append(dict(property_id=i, quick_cmd='./check %s --tier quick' % i,
                           thorough_cmd='./check %s --tier thorough' % i,
                           evidence_file='evidence/%s.json' % i,
                           replay_cmd_template='./check %s --replay {path}' % i,
                           engine=c['engine'],
                           level_claimed=dict(category='model_checking', text=c['text'], design_ref=c['ref']),
                           level_note=c['note'], technique=c['technique']))
m = dict(version=1,
         setup_cmd='true',
         hooks=dict(guard='PYSYNCOBJ_VERIF', enable='no source hooks: every seam is a module-level rebind done by the harness (PYSYNCOBJ_VERIF=1 is exported by ./check but nothing in /repo reads it)',
                    baseline_off_cmd='cd /repo && /venv/bin/python -m pytest -ra -q -p no:cacheprovider --timeout=900 --continue-on-collection-errors',
                    source_commits=[], add_only=True),
         engines=[dict(name='E1', path='mc/cluster.py', serves_properties=sorted(k for k, v in CLAIMED.items() if v['engine'] == 'E1'), kind_free_text='explicit-state BFS over real SyncObj nodes with simulated transport/clock/files'),
                  dict(name='E4', path='mc/core.py', serves_properties=['C08', 'C15'], kind_free_text='explicit-state BFS of one real object against a reference model')],
         checks=checks,
         notes='All checks run the real code of /repo working tree (sys.path), nothing is built. See DESIGN.md.',
         not_applicable=[dict(property_id=i, reason=r) for i, r in sorted(NOT_YET.items())])
json.dump(m, open(os.path.join(HERE, 'MANIFEST.json'), 'w'), indent=1)
import jsonschema
jsonschema.validate(m, json.load(open('/root/.vp/MANIFEST.schema.json')))
print('MANIFEST ok: claimed', sorted(CLAIMED), 'not_applicable', len(NOT_YET))
