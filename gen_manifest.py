#!/venv/bin/python
"""Regenerates MANIFEST.json from the table below (kept in one place so it stays valid)."""
import json, os
HERE = os.path.dirname(os.path.abspath(__file__))
props = [json.loads(l) for l in open(os.path.join(HERE, 'properties.jsonl'))]
ids = [p['id'] for p in props]

CLAIMED = {
 'C15': dict(engine='E4', technique='explicit-state BFS over all battery operation sequences up to a depth, executed on the real methods, compared with the builtin after every step',
             text='All operation sequences over small argument domains up to depth 6 (quick) / 8 (thorough) on every battery, merged on contents; return value / exception class / contents / read accessors compared with int, list, dict, set, bounded deque, bounded heap after every operation.',
             note='argument domains {0,1,2}/{a,b}; ReplSet.pop compared as "some member"; full() only for maxsize>0; hash order across differently seeded processes is out of reach',
             ref='4/C15'),
 'C08': dict(engine='E4', technique='explicit-state BFS over journal operation sequences on the real FileJournal over a simulated file system, kill injected before every OS-visible mutation of every operation in every state',
             text='All sequences of add(boundary-dense sizes incl. 2.5x file size)/deleteEntriesFrom/deleteEntriesTo/clear/setRaftCommitIndex/timer/reopen up to depth 4 with crash points + depth 5 without (quick), 6/7 (thorough), merged on contents+file size+meta; equality with a list in every state and after a clean reopen; crash oracle (contiguous range keeping what the operation keeps, append all-or-nothing, commit index one that was set) at every kill point.',
             note='process-kill crash model (no torn stores, no reordering, Python-level buffers lost); simulated open/mmap/rename validated byte-for-byte against real files by a pristine copy of journal.py on all sequences up to depth 2 (quick) / 3 (thorough)',
             ref='4/C08'),
}
RAFT_TECH = 'explicit-state BFS over worlds of real SyncObj nodes (every transition = one real tick / message handler / notification / API call), ghost-state monitors on every transition and state'
RAFT_NOTE = 'environment model: per-link FIFO SimTransport, per-node virtual clocks, election timeout answered by the explorer; bounds = per-job event budgets from scripted seed states (evidence lists every job with its budget, state and transition counts); full alphabet for 2-3 voters, election alphabet for 4-5'
for pid, txt, ref in [
  ('C01', 'All schedules within the per-job budgets (elections, heartbeats, submissions, drops, reconnects, compactions) from seeds fresh/steady/lagging/lagging+snapshot/deposed/deposed+snapshot/pending/pipeline/forwarded/fig8; oracle in every state: each node object state equals the replay of the common sequence up to its applied index (no skip/repeat/reorder, also after snapshot install), position -> command is a function across nodes and time.', '4/C01'),
  ('C02', 'Same schedules; oracle on every callback: at most once per submission; SUCCESS(r) => applied at exactly one position with r the reference result and never applied twice; negative answers => never applied on any node in any later state.', '4/C02'),
  ('C03', 'Same schedules with election-heavy budgets; oracle: leaders[term] single-valued over the whole history, votes[(voter,term)] single-valued at the wire, at every become-leader transition every entry committed under an earlier term is in the new leader log or under its snapshot.', '4/C03'),
  ('C04', 'Same schedules; oracle: at the transition at which any node commit index advances over p a majority of voters stores that (term, command) at p; every committed position stays on a majority in every state; a committed position never shows another entry on a node reporting it committed; commit/applied indices monotone; log matching between all node pairs.', '4/C04'),
]:
    CLAIMED[pid] = dict(engine='E1', technique=RAFT_TECH, text=txt, note=RAFT_NOTE, ref=ref)
CLAIMED['C05'] = dict(engine='E1', technique='explicit-state BFS over real SyncObj nodes; from every reached state (including the states of the scripted seed prefixes) a deterministic fair closing run must converge', text='From EVERY state reached by the fault-budgeted exploration: heal (all links / a bare majority, low and high ids), fair round-robin ticks with FIFO delivery for 10 maximal election timeouts of virtual time, then one submission per connected node and a second period; oracle: exactly one leader, all agree on it, every post-heal submission SUCCESS, all connected replicas equal applied index and object state.', note='one fair schedule per history, not all fair schedules; ' + RAFT_NOTE, ref='4/C05')
CLAIMED['C11'] = dict(engine='E1', technique='exhaustive enumeration of an input grid (payload sizes x batch sizes x journal kinds x append modes x argument shapes), each grid point executed on real SyncObj nodes', text='Every payload length 0..4*batch+64 for batch sizes 1, 7, 64, 200 and the bands k*batch+-64 (k=1..4) for 4096 and 65536, memory and file journal (simulated FS), batch and non-batch mode, positional/keyword/both/nested/no arguments, submitted on leader (and via a follower, thorough): no exception escapes any step, every replica executes the call exactly once with equal arguments, callback SUCCESS.', note='default schedule per grid point (submit, heartbeats, FIFO delivery to quiescence); content of the payload is a fixed pattern; quick tier thins the 64 KiB bands and some file/non-batch ranges (listed per job in the evidence)', ref='4/C11')
CLAIMED['C12'] = dict(engine='E1', technique='explicit-state BFS over real SyncObj nodes with ok / raising submissions on every node; closing run from every state', text='All interleavings of up to 4 (quick: 2-4) ok/raising submissions on leader and followers with ticks and deliveries, 1-3 nodes, batch and non-batch: no exception escapes a tick or handler; each callback exactly once; from every state the closing run shows every replica past the raising command, later commands applied, replicas equal, every callback fired.', note='raising method = deterministic ValueError on every replica; fault-free network in these jobs; replay-from-journal variant is part of the C06 machinery', ref='4/C12')
CLAIMED['C20'] = dict(engine='E1', technique='explicit-state BFS over real SyncObj nodes with fallback-sized time steps; ghost silence clocks per (leader, peer)', text='2-5 voters (+1 observer), fallback timeout 1.5x / 3.5x the heartbeat period and 30 s, all patterns of endpoint-noticed and black-holed link loss within the X budget interleaved with heartbeats, fallback-sized ticks and submissions: after every tick of a leader that has not heard from a majority within the timeout it no longer reports itself leader; a submission made while physically cut off from a majority is never answered SUCCESS while still cut off; hasQuorum equals connected-to-a-majority in every state.', note='a node can only step down when it ticks, so the oracle is evaluated after each tick; heard-from = any delivered message (the implementation counts only acknowledgements and can only be more eager); ' + RAFT_NOTE, ref='4/C20')
CLAIMED['C18'] = dict(engine='E1', technique='explicit-state BFS over real SyncObj nodes including 1-3 read-only nodes that join, leave and re-join; voters-only majorities in the oracle; closing runs', text='2-3 voters with 1-3 nodes without own address, budgets of elections, heartbeats, submissions (also through observers), drops and reconnects of observer and voter links, observers needing a snapshot: no vote request/answer ever leaves an observer, it never leads, a leader is elected only with votes of a voter majority, commits are backed by a voter majority (also when voters alone cannot form one), observers satisfy the C01 replay oracle, submissions through them the C02 contract, closing runs converge including observers.', note='observers dial every voter and are numbered per acceptor like the TCP transport does; closing run on the residue class key mod 7 == 0 of states; ' + RAFT_NOTE, ref='4/C18')
NOT_YET = {}
for i in ids:
    if i not in CLAIMED:
        NOT_YET[i] = 'check not built yet in this revision of /verif (planned, see DESIGN.md section 4); not claimed until it runs green'

checks = []
for i in ids:
    if i in CLAIMED:
        c = CLAIMED[i]
        checks.append(dict(property_id=i, quick_cmd='./check %s --tier quick' % i,
                           thorough_cmd='./check %s --tier thorough' % i,
                           evidence_file='evidence/%s.json' % i,
                           replay_cmd_template='./check %s --replay {path}' % i,
                           engine=c['engine'],
                           level_claimed=dict(category='model_checking', text=c['text'], design_ref=c['ref']),
                           level_note=c['note'], technique=c['technique']))
m = dict(version=1,
         setup_cmd='true',
         hooks=dict(guard='PYSYNCOBJ_VERIF', enable='no source hooks: every seam is a module-level rebind done by the harness (PYSYNCOBJ_VERIF=1 is exported by ./check but nothing in /repo reads it)',
                    baseline_off_cmd='cd /repo && /venv/bin/python -m pytest -ra -q -p no:cacheprovider --timeout=900 --continue-on-collection-errors',
                    source_commits=[], add_only=True),
         engines=[dict(name='E1', path='mc/cluster.py', serves_properties=sorted(k for k, v in CLAIMED.items() if v['engine'] == 'E1'), kind_free_text='explicit-state BFS over real SyncObj nodes with simulated transport/clock/files'),
                  dict(name='E4', path='mc/core.py', serves_properties=['C08', 'C15'], kind_free_text='explicit-state BFS of one real object against a reference model')],
         checks=checks,
         notes='All checks run the real code of /repo working tree (sys.path), nothing is built. See DESIGN.md.',
         not_applicable=[dict(property_id=i, reason=r) for i, r in sorted(NOT_YET.items())])
json.dump(m, open(os.path.join(HERE, 'MANIFEST.json'), 'w'), indent=1)
import jsonschema
jsonschema.validate(m, json.load(open('/root/.vp/MANIFEST.schema.json')))
print('MANIFEST ok: claimed', sorted(CLAIMED), 'not_applicable', len(NOT_YET))
