#!/bin/bash
# Runs every registered check (quick by default) on /repo's working tree and validates the evidence files.
tier=${1:-quick}
cd /verif
rc=0
for p in C01 C02 C03 C04 C05 C06 C07 C08 C09 C10 C11 C12 C13 C14 C15 C16 C17 C18 C19 C20; do
  s=$(date +%s)
  out=$(./check $p --tier $tier 2>&1); r=$?
  e=$(( $(date +%s) - s ))
  echo "$p exit=$r ${e}s $(echo "$out" | grep -E "tier=" | cut -c1-160)"
  echo "$out" | grep -E "^VIOLATION|^KNOWN-FINDING|HARNESS" | cut -c1-200
  [ $r -ne 0 ] && rc=1
done
python3-vt - <<'PY'
import json, jsonschema, glob
sch = json.load(open('/root/.vp/EVIDENCE.schema.json'))
for f in sorted(glob.glob('/verif/evidence/C*.json')):
    jsonschema.validate(json.load(open(f)), sch)
print('evidence files valid:', len(glob.glob('/verif/evidence/C*.json')))
PY
exit $rc
