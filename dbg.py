#!/venv/bin/python
import os, sys, time
os.environ.setdefault('PYTHONHASHSEED','0')
sys.path.insert(0,'/verif'); sys.path.insert(0,'/repo')
from mc import jobs, core
import json
def run(**kw):
    t=time.time()
    r = jobs.cluster_job(**kw)
    print(json.dumps(core.jsonable(r.to_json()), indent=None)[:1500])
    for v in r.violations: print('VIOL', v['msg']); print('  prefix', v.get('prefix')); print('  trace', v['trace'])
    print('known', r.known)
    print('%.1fs'%(time.time()-t))
    return r
def explain(trace, **kw):
    import pickle
    m = jobs.build_model(**kw)
    w = m.initial()
    def show(w):
        for s in m.summaries(w):
            print('   ', s.nid, 'T%s'%s.term, 'L' if s.leader_flag else '-', 'ld=%s'%s.leader, 'c=%s a=%s'%(s.commit, s.applied),
                  'log=%s'%([(e[0],e[1],m_show(e[2])) for e in s.log],), 'app=%s'%(list(s.app),), 'conn=%s'%sorted(s.connected))
        for l,q in w.links: print('    link', l, [mm(x) for x in q])
    from mc.cluster import decode_cmd
    def m_show(c):
        k,p = decode_cmd(c); return k[0]+(str(p[1][0]) if k=='reg' and p[1] else '')
    def mm(x):
        if x.startswith(b'HELLO'): return x
        d = pickle.loads(x); d = dict(d)
        if 'entries' in d: d['entries'] = [(e[1],e[2],m_show(e[0])) for e in d['entries']]
        return d
    print('SEED'); show(w)
    for ev in trace:
        ev = tuple(ev)
        try:
            w2 = m.apply(w, ev)
        except core.Violation as v:
            print('EVENT', ev, '-> VIOLATION', v.msg); return
        if w2 is None: print('EVENT', ev, 'not enabled'); return
        w = w2
        print('EVENT', ev); show(w)
        v = m.check(w)
        if v: print('CHECK VIOLATION', v); return
if __name__=='__main__':
    exec(sys.argv[1])
