"""C06 - a journaled node restarts without forgetting anything it acknowledged."""
import pickle

from mc import core
from mc.cluster import Monitor, tick_dt


class DurabilityMonitor(Monitor):
    """ghost: ((nid, highest log index acknowledged with success on the wire or counted as
    leader for a commit), ...). At restart the node's log must still hold every entry of its
    pre-kill log up to that index (same term), unless the position is under the snapshot it
    loaded."""

    def init_ghost(self, model):
        return ()

    def on_step(self, model, pre_w, post_w, nid, ev, pre, post, out, obs, exc, g):
        acked = dict(g)
        a = acked.get(nid, 0)
        for dst, mb in out:
            if b'next_node_idx' in mb:
                m = pickle.loads(mb)
                if m.get('type') == 'next_node_idx' and m.get('success'):
                    a = max(a, m['next_node_idx'] - 1)
        if post.alive and post.leader_flag and post.commit is not None:
            a = max(a, post.commit)
        if a:
            acked[nid] = a
        if ev[0] == 'U' and post.alive:
            d = dict(pre.extra)
            pk = d.get('prekill')
            if pk is not None:
                first, ents, commit, applied, term = pk
                have = dict((e[0], e[1]) for e in post.log)
                for idx, t in ents:
                    if idx > acked.get(nid, 0):
                        break
                    if post.first is not None and idx < post.first:
                        continue
                    if have.get(idx) != t:
                        raise core.Violation('C06 %s acknowledged log entries up to index %d; after kill %r and restart its log '
                                             '%r lacks entry (index %d, term %d) it held before the kill' % (
                                                 nid, acked.get(nid, 0), pre_w and ev, [(e[0], e[1]) for e in post.log], idx, t),
                                             sig='acked-entry-forgotten')
        # a node rebuilds its state up to what it knows to be committed: one tick applies everything between its
        # applied and commit index, so after a tick of its own the two are equal (as far as its log reaches)
        if post.alive and pre.alive and tick_dt(model.cfg, ev) is not None and post.commit is not None and \
                not (len(post.extra) > 2 and ('fresh', 1) in post.extra):
            top = min(post.commit, post.last or 0)
            if post.applied < top:
                raise core.Violation('C06 %s has ticked but its applied index stays at %d although it knows positions up to %d to be '
                                     'committed (its log holds %d..%d): the state it rebuilt is not that of the committed prefix it knows (%r)' % (
                                         nid, post.applied, top, post.first, post.last, ev), sig='stuck-behind-commit')
        return tuple(sorted(acked.items()))


class TermMonitor(Monitor):
    """C07: a restarted journaled node never falls back to a term older than one it had adopted
    at the end of a completed step (votes and leaders per term are checked by the C03 clause of
    the safety monitor, whose ghost survives restarts)."""

    def init_ghost(self, model):
        return ()

    def on_step(self, model, pre_w, post_w, nid, ev, pre, post, out, obs, exc, g):
        t = dict(g)
        if post.alive and ev[0] != 'U':
            if post.term is not None and post.term > t.get(nid, 0):
                t[nid] = post.term
        if ev[0] == 'U' and post.alive and model.cfg.journal in ('file', 'file+dump'):
            if post.term < t.get(nid, 0):
                raise core.Violation('C07 %s had adopted term %d before it was killed, after the restart it is back in term %d' % (
                    nid, t.get(nid, 0), post.term), sig='term-forgotten-on-restart')
        return tuple(sorted(t.items()))
