"""Environment seams for running real SyncObj nodes inside the explorer. Every seam is a
module-level rebind done from outside; nothing in /repo is edited."""
import types
import functools

from mc import vfs

CLOCK = [1000000.0]       # virtual monotonic time of the node whose step is running
CLOCK_DRIFT = [0.0]       # added to the clock on every read ("slow tick" mode), 0 = frozen
RAND = [0.0]              # answer of random.random()
INSTALLED = [False]


def now():
    if CLOCK_DRIFT[0]:
        CLOCK[0] += CLOCK_DRIFT[0]
    return CLOCK[0]


NONCE = [0]      # answer of random.getrandbits(): set per node incarnation by the cluster engine (number of kills so far)


class FakeRandom(object):
    @staticmethod
    def random():
        return RAND[0]

    @staticmethod
    def getrandbits(k):
        return NONCE[0] % (1 << k)

    @staticmethod
    def choice(seq):
        return seq[0]


class FakeTime(object):
    @staticmethod
    def time():
        return now()

    @staticmethod
    def sleep(t):
        CLOCK[0] += t

    @staticmethod
    def monotonic():
        return now()


class DummyLock(object):
    def acquire(self, *a, **kw):
        return True

    def release(self):
        pass

    def __enter__(self):
        return self

    def __exit__(self, *a):
        return False


class DummyEvent(object):
    def __init__(self):
        self.flag = False

    def set(self):
        self.flag = True

    def is_set(self):
        return self.flag

    def wait(self, timeout=None):
        return self.flag

    def clear(self):
        self.flag = False


class DummyThreading(object):
    Lock = DummyLock
    RLock = DummyLock
    Event = DummyEvent

    @staticmethod
    def current_thread():
        return None

    class Thread(object):
        def __init__(self, *a, **kw):
            raise NotImplementedError('threads are not used by the single-threaded engines')


class DummyPoller(object):
    def subscribe(self, *a):
        pass

    def unsubscribe(self, *a):
        pass

    def poll(self, timeout):
        pass


def install():
    if INSTALLED[0]:
        return
    INSTALLED[0] = True
    import pysyncobj.syncobj as SO
    import pysyncobj.transport as TR
    import pysyncobj.tcp_connection as TC
    import pysyncobj.dns_resolver as DR
    import pysyncobj.fast_queue as FQ
    for m in (SO, TR, TC, DR):
        m.monotonicTime = now
    SO.random = FakeRandom
    SO.time = FakeTime
    SO.threading = DummyThreading
    FQ.threading = DummyThreading
    SO.createPoller = lambda t: DummyPoller()
    SO.PIPE_NOTIFIER_ENABLED = False
    SO.os = vfs.FAKE_OS
    vfs.install_journal()
    vfs.install_serializer()
    import logging
    logging.getLogger('pysyncobj').setLevel(logging.CRITICAL + 1)
    logging.getLogger('pysyncobj.syncobj').setLevel(logging.CRITICAL + 1)
    logging.getLogger('pysyncobj.serializer').setLevel(logging.CRITICAL + 1)


def mangled(method):
    """Attribute name under which a bound method is reachable from its instance."""
    name = method.__func__.__name__
    obj = method.__self__
    cand = getattr(obj, name, None)
    if getattr(cand, '__func__', None) is method.__func__:
        return name
    if name.startswith('__') and not name.endswith('__'):
        for cls in type(obj).__mro__:
            m = '_' + cls.__name__.lstrip('_') + name
            cand = getattr(obj, m, None)
            if getattr(cand, '__func__', None) is method.__func__:
                return m
    raise AttributeError('cannot find bound method %r on %r' % (name, type(obj).__name__))
