"""In-memory file system with a primitive-write log and kill injection.

The process-kill crash model: data handed to the OS (write syscall issued by flush/close of a
Python file object, a store into a shared file mapping, a rename) survives the death of the
process; data still in a Python-level file buffer does not. A kill is injected *before* the
k-th OS-visible mutation of a step. Torn single mutations are not modelled.
"""
import io
import errno


WRITE_BUFFER = 8192      # size of the user-space buffer of a file object (io.DEFAULT_BUFFER_SIZE); checks may scale it down


class Killed(BaseException):
    """Raised inside library code when the simulated process is killed."""


CURRENT = None    # the VFS of the node whose step is running


def activate(v):
    global CURRENT
    CURRENT = v


class VFS(object):
    def __init__(self):
        self.files = {}       # path -> bytearray
        self.nwrites = 0      # OS-visible mutations so far in this step
        self.kill_at = None   # kill before mutation number kill_at (0-based) of this step
        self.log = None       # optional list of mutation descriptions
        self.handles = {}     # fileno -> path   (only live within one step / object lifetime)
        self.next_fd = 100
        self.dead = False
        self.on_kill = None

    def begin_step(self, kill_at=None, log=False, on_kill=None):
        self.nwrites = 0
        self.kill_at = kill_at
        self.log = [] if log else None
        self.dead = False
        self.on_kill = on_kill

    def mutate(self, what):
        if getattr(self, 'dead', False):
            # the library swallowed the kill with a bare 'except:'; a dead process does nothing more
            raise Killed(what)
        if self.kill_at is not None and self.nwrites == self.kill_at:
            self.kill_at = None
            self.dead = True
            if self.on_kill is not None:
                self.on_kill()
            raise Killed(what)
        self.nwrites += 1
        if self.log is not None:
            self.log.append(what)

    def snapshot(self):
        return {p: bytes(b) for p, b in self.files.items()}

    def clone_files(self):
        v = VFS()
        v.files = {p: bytearray(b) for p, b in self.files.items()}
        return v

    def key(self):
        return tuple(sorted((p, bytes(b)) for p, b in self.files.items()))

    # -- API used by the fakes
    def open(self, path, mode='r', *a, **kw):
        if 'b' not in mode:
            raise NotImplementedError('text mode open(%r, %r)' % (path, mode))
        if getattr(self, 'fail_writes', False) and ('w' in mode or 'a' in mode):
            raise OSError(errno.ENOSPC, 'No space left on device', path)
        if getattr(self, 'fail_dump', False) and ('w' in mode or 'a' in mode) and 'dump' in path:
            raise OSError(errno.ENOSPC, 'No space left on device', path)
        return FakeFile(self, path, mode)


class FakeFile(object):
    def __init__(self, vfs, path, mode):
        self.vfs = vfs
        self.path = path
        self.mode = mode
        self.closed = False
        self.buf = bytearray()     # user-space write buffer
        self.pos = 0
        m = mode.replace('b', '')
        if m in ('r', 'r+'):
            if path not in vfs.files:
                raise IOError(errno.ENOENT, 'No such file', path)
        elif m == 'w':
            vfs.mutate(('truncate', path))
            if path in vfs.files:
                del vfs.files[path][:]      # the same file object is truncated: other open handles see it
            else:
                vfs.files[path] = bytearray()
        elif m == 'a':
            if path not in vfs.files:
                vfs.mutate(('create', path))
                vfs.files[path] = bytearray()
            self.pos = len(vfs.files[path])
        else:
            raise NotImplementedError(mode)
        self.fd = vfs.next_fd
        vfs.next_fd += 1
        vfs.handles[self.fd] = path
        self.inode = vfs.files[path]

    def fileno(self):
        return self.fd

    def _data(self):
        # like a real descriptor the handle stays bound to the file object it opened: after a rename
        # (FakeOs.rename moves the same bytearray to the new name) writes land in the renamed file,
        # after an unlink they go nowhere visible
        return self.inode

    def write(self, data):
        if self.closed:
            raise ValueError('write to closed file')
        self.buf += bytes(data)
        if len(self.buf) >= WRITE_BUFFER:
            # like io.BufferedWriter: a full user-space buffer is handed to the OS
            self.flush()
        return len(data)

    def flush(self):
        if self.buf:
            self.vfs.mutate(('write', self.path, len(self.buf)))
            d = self._data()
            end = self.pos + len(self.buf)
            if self.pos > len(d):
                d.extend(b'\0' * (self.pos - len(d)))
            d[self.pos:end] = self.buf
            self.pos = end
            self.buf = bytearray()

    def read(self, n=-1):
        d = self._data()
        if n is None or n < 0:
            out = bytes(d[self.pos:])
        else:
            out = bytes(d[self.pos:self.pos + n])
        self.pos += len(out)
        return out

    def seek(self, off, whence=0):
        self.flush()
        if whence == 0:
            self.pos = off
        elif whence == 1:
            self.pos += off
        else:
            self.pos = len(self._data()) + off
        return self.pos

    def tell(self):
        return self.pos + len(self.buf)

    def close(self):
        if not self.closed:
            try:
                self.flush()
            finally:
                self.closed = True
                self.vfs.handles.pop(self.fd, None)

    def readable(self):
        return True

    def writable(self):
        return True

    def seekable(self):
        return True

    def __enter__(self):
        return self

    def __exit__(self, et, ev, tb):
        if et is not None and issubclass(et, Killed):
            # the process died: user-space buffer is lost, nothing more reaches the OS
            self.buf = bytearray()
            self.closed = True
            return False
        self.close()
        return False


class FakeMmap(object):
    def __init__(self, fileno, length, *a, **kw):
        vfs = CURRENT
        self.vfs = vfs
        self.path = vfs.handles[fileno]
        if length != 0:
            raise NotImplementedError('mmap length != 0')
        if len(vfs.files[self.path]) == 0:
            raise ValueError('cannot mmap an empty file')
        self.closed = False

    def _d(self):
        return self.vfs.files[self.path]

    def size(self):
        return len(self._d())

    def __len__(self):
        return len(self._d())

    def resize(self, n):
        self.vfs.mutate(('resize', self.path, n))
        d = self._d()
        if n < len(d):
            del d[n:]
        else:
            d.extend(b'\0' * (n - len(d)))

    def __getitem__(self, item):
        r = self._d()[item]
        return bytes(r) if isinstance(item, slice) else r

    def __setitem__(self, item, values):
        d = self._d()
        if isinstance(item, slice):
            start, stop, step = item.indices(len(d))
            if step != 1:
                raise NotImplementedError
            if stop < start:
                stop = start
            if stop - start != len(values):
                raise IndexError('mmap slice assignment is wrong size')
            self.vfs.mutate(('store', self.path, start, len(values)))
            d[start:stop] = values
        else:
            self.vfs.mutate(('store', self.path, item, 1))
            d[item] = values

    def flush(self, *a):
        return None

    def close(self):
        self.closed = True


class FakeMmapModule(object):
    mmap = FakeMmap
    ACCESS_WRITE = 2


class _FakePath(object):
    @staticmethod
    def exists(p):
        return p in CURRENT.files

    @staticmethod
    def isfile(p):
        return p in CURRENT.files

    @staticmethod
    def getsize(p):
        return len(CURRENT.files[p])


class FakeOs(object):
    """The subset of `os` used by journal.py / serializer.py / syncobj.py file handling."""
    path = _FakePath
    WNOHANG = 1
    O_NONBLOCK = 2048

    def __init__(self):
        self.fork_hook = None
        self.waitpid_hook = None
        self.exit_hook = None
        self.kill_hook = None

    @staticmethod
    def rename(a, b):
        v = CURRENT
        if a not in v.files:
            raise OSError(errno.ENOENT, 'No such file', a)
        v.mutate(('rename', a, b))
        v.files[b] = v.files.pop(a)

    @staticmethod
    def remove(p):
        v = CURRENT
        if p not in v.files:
            raise OSError(errno.ENOENT, 'No such file', p)
        v.mutate(('remove', p))
        del v.files[p]

    unlink = remove

    def fork(self):
        return self.fork_hook()

    def waitpid(self, pid, flags):
        return self.waitpid_hook(pid, flags)

    def _exit(self, code):
        return self.exit_hook(code)

    def kill(self, pid, sig):
        return self.kill_hook(pid, sig)

    # wait-status helpers are pure functions
    import os as _os
    WEXITSTATUS = staticmethod(_os.WEXITSTATUS)
    WIFEXITED = staticmethod(_os.WIFEXITED)
    WIFSIGNALED = staticmethod(_os.WIFSIGNALED)
    WTERMSIG = staticmethod(_os.WTERMSIG)
    del _os

    def __getattr__(self, name):
        raise NotImplementedError('os.%s is not provided by the simulated file system' % name)


FAKE_OS = FakeOs()


class FakeShutil(object):
    @staticmethod
    def move(a, b):
        FakeOs.rename(a, b)


def vfs_open(path, mode='r', *a, **kw):
    return CURRENT.open(path, mode, *a, **kw)


def install_journal():
    """Rebind the environment of pysyncobj.journal to the simulated file system."""
    import pysyncobj.journal as J
    J.open = vfs_open
    J.os = FAKE_OS
    J.mmap = FakeMmapModule
    J.shutil = FakeShutil
    return J


def install_serializer():
    import gzip as _gzip
    import pysyncobj.serializer as S

    class _Gzip(object):
        """gzip with a fixed mtime: the real module stamps wall-clock time into every
        snapshot, which would make snapshot bytes differ between runs."""
        @staticmethod
        def GzipFile(*a, **kw):
            kw.setdefault('mtime', 0)
            return _gzip.GzipFile(*a, **kw)

    S.open = vfs_open
    S.os = FAKE_OS
    S.gzip = _Gzip
    S.atomicReplace = FakeOs.rename
    return S


def pristine_module(name):
    """A second, unpatched instance of a pysyncobj submodule (for conformance runs on real
    files)."""
    import importlib.util
    import os
    import pysyncobj
    path = os.path.join(os.path.dirname(pysyncobj.__file__), name + '.py')
    spec = importlib.util.spec_from_file_location('pysyncobj.%s__pristine' % name, path)
    mod = importlib.util.module_from_spec(spec)
    mod.__package__ = 'pysyncobj'
    spec.loader.exec_module(mod)
    return mod
