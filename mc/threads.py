"""E3 - stateless thread explorer (CHESS style) for the real SyncObj with autoTick=True.

All threads are real OS threads passing a single baton (one semaphore per thread). Scheduling
points: every traced source line of pysyncobj (sys.settrace line events, selectable set of
functions) plus explicit points in the shimmed threading.Event / Lock / Thread.start,
time.sleep and poller.poll. Exploration is depth-first over choice sequences with iterative
pre-emption bounding; every execution is re-run from its recorded choice prefix and a
divergence while replaying a prefix is a hard error.
"""
import sys
import threading as _real
import traceback

from mc import core, seams


class Divergence(core.HarnessError):
    pass


class Abort(BaseException):
    """Raised in controlled threads to unwind them when an execution is over."""


class TInfo(object):
    def __init__(self, tid, name):
        self.tid = tid
        self.name = name
        self.sem = _real.Semaphore(0)
        self.state = 'new'       # new | runnable | blocked | done
        self.wait_on = None      # Event / Lock it waits for
        self.timeout = False     # blocked wait has a timeout (may be woken by the timeout branch)
        self.wake_result = None
        self.thread = None
        self.exc = None
        self.ticks = 0


class Sched(object):
    """One execution under a given choice prefix."""

    def __init__(self, prefix, trace_filter, horizon_ticks=3, max_points=6000):
        self.prefix = list(prefix)
        self.choices = []        # choice taken at every decision point
        self.points = []         # (n_enabled, running_enabled, kind) per decision point
        self.threads = []
        self.current = None
        self.done_sem = _real.Semaphore(0)
        self.recording = False
        self.over = False
        self.deadlock = None
        self.trace_filter = trace_filter
        self.horizon_ticks = horizon_ticks
        self.max_points = max_points
        self.callers_done_at_tick = None
        self.clock = [1000000.0]
        self.errors = []
        self.livelock = False

    # -- thread registry
    def register(self, name):
        t = TInfo(len(self.threads), name)
        self.threads.append(t)
        return t

    def me(self):
        ident = _real.get_ident()
        for t in self.threads:
            if t.thread is not None and t.thread.ident == ident:
                return t
        return None

    def runnable(self):
        return [t for t in self.threads if t.state == 'runnable']

    # -- the decision
    def point(self, kind, yielding=False):
        """Called by the running controlled thread. May hand the baton to another thread."""
        me = self.me()
        if me is None or self.over and kind != 'exit':
            if self.over and me is not None:
                raise Abort()
            return
        if me.state == 'runnable' and not self.recording and kind not in ('block', 'exit') and not yielding:
            return     # before the exploration starts only blocking / yielding points switch
        en = self.runnable()
        if not en:
            # nobody can run: wake a timed wait, else deadlock
            timed = [t for t in self.threads if t.state == 'blocked' and t.timeout]
            if timed:
                t = timed[0]
                t.state = 'runnable'
                t.wake_result = False
                en = [t]
            else:
                blocked = [t.name for t in self.threads if t.state == 'blocked']
                if blocked:
                    self.deadlock = 'no enabled thread; blocked: %r' % blocked
                self.finish()
                if me.state != 'done':
                    raise Abort()
                return
        # canonical order: the running thread first if still enabled (unless it yields), then ascending ids
        order = sorted(en, key=lambda t: t.tid)
        running_enabled = me in en
        if running_enabled:
            order.remove(me)
            if yielding:
                # round robin after a yield: next ids first, the yielding thread last
                order = [t for t in order if t.tid > me.tid] + [t for t in order if t.tid < me.tid] + [me]
            else:
                order = [me] + order
        if self.recording and len(order) > 1:
            i = len(self.choices)
            if i < len(self.prefix):
                c = self.prefix[i]
                if c >= len(order):
                    raise Divergence('replay divergence at point %d: choice %d of %d enabled' % (i, c, len(order)))
            else:
                c = 0
            self.choices.append(c)
            self.points.append((len(order), running_enabled and not yielding, kind))
            if len(self.choices) > self.max_points:
                self.livelock = True
                self.finish()
                raise Abort()
        else:
            c = 0
        nxt = order[c]
        if nxt is me:
            return
        self.current = nxt
        nxt.sem.release()
        if me.state != 'done':
            me.sem.acquire()
            if self.over:
                raise Abort()

    def finish(self):
        if not self.over:
            self.over = True
            for t in self.threads:
                if t.state != 'done':
                    t.sem.release()
            self.done_sem.release()

    # -- tracing
    def tracer(self, frame, event, arg):
        if event != 'call':
            return None
        code = frame.f_code
        if not self.trace_filter(code.co_filename, code.co_name):
            return None
        return self.local_trace

    def local_trace(self, frame, event, arg):
        if event == 'line' and self.recording and not self.over:
            self.point('line:%s:%d' % (frame.f_code.co_name, frame.f_lineno))
        return self.local_trace


SCHED = [None]


# ---- shims ---------------------------------------------------------------------------

class SEvent(object):
    def __init__(self):
        self.flag = False

    def is_set(self):
        return self.flag

    def set(self):
        s = SCHED[0]
        self.flag = True
        if s is not None:
            for t in s.threads:
                if t.state == 'blocked' and t.wait_on is self:
                    t.state = 'runnable'
                    t.wake_result = True
                    t.wait_on = None
            s.point('event.set')

    def clear(self):
        self.flag = False

    def wait(self, timeout=None):
        s = SCHED[0]
        if s is None or s.me() is None:
            return self.flag
        s.point('event.wait')
        if self.flag:
            return True
        me = s.me()
        me.state = 'blocked'
        me.wait_on = self
        me.timeout = timeout is not None
        me.wake_result = None
        s.point('block')
        return bool(me.wake_result) or self.flag


class SLock(object):
    def __init__(self):
        self.owner = None

    def acquire(self, blocking=True, timeout=-1):
        s = SCHED[0]
        if s is None or s.me() is None:
            self.owner = 'outside'
            return True
        s.point('lock.acquire')
        me = s.me()
        while self.owner is not None:
            me.state = 'blocked'
            me.wait_on = self
            me.timeout = False
            s.point('block')
        self.owner = me.tid
        return True

    def release(self):
        s = SCHED[0]
        self.owner = None
        if s is not None:
            for t in s.threads:
                if t.state == 'blocked' and t.wait_on is self:
                    t.state = 'runnable'
                    t.wait_on = None
            if s.me() is not None:
                s.point('lock.release')

    def __enter__(self):
        self.acquire()
        return self

    def __exit__(self, *a):
        self.release()
        return False


class SThread(object):
    """threading.Thread replacement: a real thread that only runs while it holds the baton."""

    def __init__(self, target=None, args=(), kwargs=None, name=None):
        self.target = target
        self.args = args
        self.kwargs = kwargs or {}
        self.info = None
        self.name = name or 'thread'
        self.real = None

    def start(self):
        s = SCHED[0]
        self.info = s.register(self.name if self.name != 'thread' else 'tick')
        info = self.info

        def body():
            info.sem.acquire()
            if s.over:
                info.state = 'done'
                return
            sys.settrace(s.tracer)
            try:
                self.target(*self.args, **self.kwargs)
            except Abort:
                pass
            except BaseException:
                info.exc = traceback.format_exc()
                s.errors.append((info.name, info.exc))
            finally:
                sys.settrace(None)
                info.state = 'done'
                if not s.over:
                    try:
                        s.point('exit')
                    except Abort:
                        pass
        self.real = _real.Thread(target=body, daemon=True)
        info.thread = self.real
        info.state = 'runnable'
        self.real.start()
        if s.me() is not None:
            s.point('thread.start')

    def is_alive(self):
        return self.info is not None and self.info.state != 'done'

    def join(self, timeout=None):
        return None


class MainThreadProxy(object):
    @staticmethod
    def is_alive():
        return True


class SThreading(object):
    Event = SEvent
    Lock = SLock
    RLock = SLock
    Thread = SThread

    @staticmethod
    def current_thread():
        return MainThreadProxy


class STime(object):
    @staticmethod
    def time():
        return SCHED[0].clock[0]

    @staticmethod
    def sleep(t):
        s = SCHED[0]
        s.clock[0] += t
        s.point('sleep', yielding=True)


class SPoller(object):
    """poll(timeout): the tick thread idles: virtual time passes, the baton is offered to others.
    Also the horizon: the execution ends a few ticks after every caller has finished."""

    def subscribe(self, *a):
        pass

    def unsubscribe(self, *a):
        pass

    def poll(self, timeout):
        s = SCHED[0]
        me = s.me()
        if me is None:
            return
        s.clock[0] += max(timeout, 0.0)
        me.ticks += 1
        if not s.recording:
            rc = getattr(s, 'ready_check', None)
            if rc is not None and rc():
                # phase 1 is over: park until the controller has created the callers
                s.ctrl.release()
                me.sem.acquire()
                if s.over:
                    raise Abort()
            elif me.ticks > 400:
                s.errors.append(('tick', 'node did not become ready'))
                s.over = True
                s.ctrl.release()
                raise Abort()
            return
        callers = [t for t in s.threads if t.name.startswith('caller')]
        if s.recording and callers and all(t.state == 'done' for t in callers):
            if s.callers_done_at_tick is None:
                s.callers_done_at_tick = me.ticks
            elif me.ticks - s.callers_done_at_tick >= s.horizon_ticks:
                s.finish()
                raise Abort()
        if s.recording and me.ticks > 400:
            s.livelock = True
            s.finish()
            raise Abort()
        s.point('poll', yielding=True)


def install():
    seams.install()
    import pysyncobj.syncobj as SO
    import pysyncobj.fast_queue as FQ
    SO.threading = SThreading
    FQ.threading = SThreading
    SO.time = STime
    SO.monotonicTime = lambda: SCHED[0].clock[0]
    SO.createPoller = lambda t: SPoller()
    SO.PIPE_NOTIFIER_ENABLED = False


def explore(run_once, bound, max_executions=None, on_execution=None):
    """Depth-first iterative context bounding. run_once(prefix) -> Sched (finished execution).
    Returns (executions, capped)."""
    stack = [[]]
    n = 0
    while stack:
        prefix = stack.pop()
        x = run_once(prefix)
        n += 1
        if on_execution is not None:
            stop = on_execution(x)
            if stop:
                return n, False
        if x.choices[:len(prefix)] != prefix:
            raise Divergence('prefix not reproduced: %r vs %r' % (x.choices[:len(prefix)], prefix))
        # deviations from the default (fair, non-pre-emptive) schedule used so far at each point: a
        # pre-emption of a runnable thread or any non-default pick at a yield / block / exit point.
        # Bounding all of them keeps every explored schedule fair (an unbounded number of free picks at
        # yield points could starve a thread forever, which no real scheduler does).
        cost = 0
        costs = []
        for i, (nen, run_en, kind) in enumerate(x.points):
            costs.append(cost)
            if x.choices[i] != 0:
                cost += 1
        for i in range(len(x.points) - 1, len(prefix) - 1, -1):
            nen, run_en, kind = x.points[i]
            if costs[i] + 1 > bound:
                continue
            for alt in range(1, nen):
                stack.append(x.choices[:i] + [alt])
        if max_executions and n >= max_executions:
            return n, True
    return n, False
