"""Bounded liveness by closing runs (C05, C14-style, C20): from a reached state, heal the
network as the property's premise says, run one fixed fair schedule for a bounded virtual time
and assert the convergence predicate. The schedule is deterministic; the universal quantifier
is over the histories (states) the explorer reaches."""
from mc import core
from mc.cluster import Monitor, World, pair


def heal(model, w, group):
    """Make every pair inside `group` connected, and cut every link between group and the
    rest. All steps are ordinary events."""
    ids = [n for n, _ in w.nodes if model.summary(w, n).alive]
    for n in ids:
        # a node that was just started has not run its first tick yet (it connects from its tick)
        s = model.summary(w, n)
        if len(s.extra) > 2 and ('fresh', 1) in s.extra:
            w = model.apply(w, ('Z', n))
    rest = [n for n in ids if n not in group]
    for a in rest:
        for b in ids:
            if a != b:
                if b in model.summary(w, a).connected:
                    w = model.apply(w, ('X', a, b, 'free'))
                if a in model.summary(w, b).connected:
                    w = model.apply(w, ('X', b, a, 'free'))
    w = deliver_all(model, w, group)
    for i, a in enumerate(group):
        for b in group[i + 1:]:
            if a.startswith('o') and b.startswith('o'):
                continue
            sa, sb = model.summary(w, a), model.summary(w, b)
            if a.startswith('o') or b.startswith('o'):
                pass
            elif b not in sa.others or a not in sb.others:
                continue
            if b in sa.connected and a in sb.connected and pair(a, b) in w.phys:
                continue
            if b in sa.connected:
                w = model.apply(w, ('X', a, b, 'free'))
            if a in model.summary(w, b).connected:
                w = model.apply(w, ('X', b, a, 'free'))
            if model.can_reconnect(w, a, b):
                w = model.apply(w, ('R', a, b, 'free'))
    return deliver_all(model, w, group)


def deliver_all(model, w, group, limit=2000):
    n = 0
    progressed = True
    while progressed:
        progressed = False
        for (a, b), q in w.links:
            if a in group and b in group:
                w = model.apply(w, ('D', a, b))
                progressed = True
                n += 1
                if n > limit:
                    raise core.Violation('message storm: more than %d deliveries without quiescence' % limit, sig='message-storm')
                break
    return w


def fair_round(model, w, group, dt):
    for i, n in enumerate(group):
        if model.summary(w, n).alive:
            w = model.apply(w, ('T', n, dt, (i + 1.0) / (len(group) + 1.0)))
            w = deliver_all(model, w, group)
    return w


def converged(model, w, group):
    sums = [model.summary(w, n) for n in group]
    sums = [s for s in sums if s.alive]
    leaders = [s for s in sums if s.leader_flag]
    if len(leaders) != 1:
        return 'leaders among connected nodes: %r' % [s.nid for s in leaders]
    ld = leaders[0]
    for s in sums:
        if s.leader != ld.nid:
            return '%s believes the leader is %r, it is %s' % (s.nid, s.leader, ld.nid)
    for s in sums:
        if s.applied != ld.applied or s.app != ld.app:
            return '%s applied=%s state=%r, leader %s applied=%s state=%r' % (s.nid, s.applied, s.app, ld.nid, ld.applied, ld.app)
    if ld.applied != ld.last:
        return 'leader %s has applied %s of %s entries' % (ld.nid, ld.applied, ld.last)
    return None


class ConvergenceMonitor(Monitor):
    """check(): run the closing run(s) from this state. Variants: heal everything / heal a bare
    majority (lowest ids, highest ids), observers stay attached to the healed group."""

    def __init__(self, prop='C05', variants=('all', 'low', 'high'), quiet_timeouts=10, every=1, submit=True):
        self.prop = prop
        self.variants = variants
        self.quiet = quiet_timeouts
        self.every = every
        self.submit = submit
        self.runs = 0
        self.steps = 0
        self.counter = 0

    def groups(self, model, w):
        voters = [n for n, _ in w.nodes if not n.startswith('o') and model.summary(w, n).alive]
        obs = [n for n, _ in w.nodes if n.startswith('o')]
        total = len(model.cfg.voter_ids())
        maj = total // 2 + 1
        out = []
        for v in self.variants:
            if v == 'all':
                g = voters
            elif v == 'low':
                g = voters[:maj]
            else:
                g = voters[-maj:]
            if len(g) * 2 <= total:
                continue
            g = g + obs
            if g not in out:
                out.append(g)
        return out

    def check(self, model, w, ghost):
        self.counter += 1
        if self.every > 1 and int.from_bytes(w.key()[:4], 'big') % self.every:
            return None   # deterministic residue class of the state key, independent of exploration order
        for g in self.groups(model, w):
            v = self.closing(model, w, g)
            if v:
                return v
        return None

    def closing(self, model, w0, group):
        self.runs += 1
        cfg = model.cfg
        try:
            w = heal(model, w0, group)
            rounds = int(self.quiet * cfg.tmax / cfg.period) + 1
            why = 'not run'
            for r in range(rounds):
                w = fair_round(model, w, group, cfg.period + 0.001)
                why = converged(model, w, group)
                if why is None:
                    break
            if why is not None:
                return core.Violation('%s no convergence within %d election timeouts after healing %r: %s' % (
                    self.prop, self.quiet, group, why), sig='no-convergence')
            if not self.submit:
                return None
            # post-heal submissions, one per connected node
            first = w.nsub
            for n in group:
                w = model.apply(w, ('S', n, 'free'))
            sids = list(range(first, w.nsub))
            for r in range(rounds):
                w = fair_round(model, w, group, cfg.period + 0.001)
                cbs = self.cbs_of(model, w)
                if all(s in cbs for s in sids) and converged(model, w, group) is None:
                    break
            cbs = self.cbs_of(model, w)
            for s in sids:
                if s not in cbs:
                    return core.Violation('%s post-heal submission %d never got its callback (group %r)' % (self.prop, s, group),
                                          sig='post-heal-no-callback')
                if cbs[s][1] == 1 and cfg.qsize < 100:
                    continue    # small queue limit: the submissions of one round may overflow it (QUEUE_FULL is an answer)
                if cbs[s][1] != 0:
                    return core.Violation('%s post-heal submission %d answered with error %r (group %r)' % (
                        self.prop, s, cbs[s][1], group), sig='post-heal-not-success')
            why = converged(model, w, group)
            if why is not None:
                return core.Violation('%s replicas differ after post-heal submissions (group %r): %s' % (self.prop, group, why),
                                      sig='post-heal-divergence')
            v = self.final(model, w0, w, group)
            if v:
                return v
        except core.Violation as v:
            return core.Violation('%s during closing run (group %r): %s' % (self.prop, group, v.msg), sig=v.sig)
        return None

    def final(self, model, w0, w, group):
        return None

    def cbs_of(self, model, w):
        # the safety monitor's ghost (first monitor) records callbacks
        g = w.ghost[0]
        return {c[0]: (c[1], c[2]) for c in g.cbs}


class AllCallbacksMonitor(ConvergenceMonitor):
    """C12: in fault-free runs every submission's callback has fired exactly once by the end of
    the closing run (exactly-once is enforced on every step by the C02 clause)."""

    def init_ghost(self, model):
        return ()

    def on_step(self, model, pre_w, post_w, nid, ev, pre, post, out, obs, exc, g):
        # a command submitted on a node that is cut off from the node it takes for the leader (or knows no leader) is
        # outside the premise (fault-free): what happens to its callback is not judged here
        if ev[0] in ('S', 'SM') and pre.alive:
            ld = pre.leader
            if ld is None or (ld != nid and ld not in pre.connected):
                return g + (pre_w.nsub,)
        return g

    def final(self, model, w0, w, group):
        cbs = self.cbs_of(model, w)
        exempt = set(w0.ghost[model.monitors.index(self)])
        for sid in range(w0.nsub):
            if sid in exempt:
                continue
            if sid not in cbs and ('z', sid) not in cbs and ('m', sid) not in cbs and ('v', sid) not in cbs:
                return core.Violation('%s callback of submission %d never fired although the cluster is healthy and has moved on' % (
                    self.prop, sid), sig='callback-lost')
        return None
