"""Core of the model-checking framework: explicit-state BFS over a Model, parallel job
runner, replay files, known findings, evidence writer.

A Model exposes
    initial()            -> state                       (after any scripted prefix)
    events(state)        -> list of hashable event labels (enabled events)
    apply(state, event)  -> new state   (may raise Violation(msg, sig=None))
    key(state)           -> hashable canonical key
    check(state)         -> None | str | Violation      (state invariant)
    describe(event)      -> json-able form of an event label (optional)
States are treated as immutable by the search: apply() must not mutate its argument.
"""
import collections
import hashlib
import json
import os
import sys
import time
import traceback

VERIF = os.path.dirname(os.path.dirname(os.path.abspath(__file__)))
REPO = os.environ.get('VERIF_REPO', '/repo')


class Violation(Exception):
    """A property violation found at a transition or state. sig, when given, is the culprit
    signature used to match open known findings."""

    def __init__(self, msg, sig=None):
        Exception.__init__(self, msg)
        self.msg = msg
        self.sig = sig


class HarnessError(Exception):
    pass


def digest(obj):
    return hashlib.blake2b(repr(obj).encode(), digest_size=16).digest()


# --------------------------------------------------------------------------------------
# Known findings

class KnownFindings(object):
    def __init__(self, path=None):
        self.open = {}     # (property, sig) -> text
        self.fixed = []
        path = path or os.path.join(VERIF, 'KNOWN_FINDINGS.txt')
        if os.path.exists(path):
            for line in open(path):
                line = line.strip()
                if not line or line.startswith('#'):
                    continue
                kind, _, rest = line.partition(':')
                rest = rest.strip()
                fields = rest.split()
                prop = None
                sig = None
                for f in fields:
                    if f.startswith('property='):
                        prop = f[len('property='):]
                    if f.startswith('sig='):
                        sig = f[len('sig='):]
                if kind == 'open' and prop and sig:
                    self.open[(prop, sig)] = rest
                elif kind == 'fixed':
                    self.fixed.append(rest)

    def match(self, prop, sig):
        """An open finding is identified by its culprit signature. Several checks share oracle clauses
        (e.g. the C04 clause runs inside C06, C09, C18), so the same culprit transition reached by another
        check is the same finding, not a new violation."""
        if sig is None:
            return None
        hit = self.open.get((prop, sig))
        if hit is None:
            for (p, s), txt in self.open.items():
                if s == sig:
                    return txt
        return hit


# --------------------------------------------------------------------------------------
# BFS

class SearchResult(object):
    def __init__(self, name):
        self.name = name
        self.states = 0
        self.transitions = 0
        self.max_depth = 0
        self.exhaustive = True
        self.cap_hit = None
        self.violations = []      # list of dict(msg, sig, trace)
        self.known = {}           # sig -> count
        self.samples = []
        self.outcomes = set()     # model-defined distinct outcome summaries
        self.extra = {}
        self.wall_s = 0.0

    def to_json(self):
        d = dict(name=self.name, states=self.states, transitions=self.transitions,
                 max_depth=self.max_depth, exhaustive=self.exhaustive, cap_hit=self.cap_hit,
                 violations=len(self.violations), known_findings=dict(self.known),
                 distinct_outcomes=len(self.outcomes), wall_s=round(self.wall_s, 2))
        d.update(self.extra)
        return d


def bfs(model, name='job', max_states=None, max_violations=1, known=None, prop=None,
        time_limit=None, order_seed=0, sample_every=0):
    """Exhaustive breadth-first search. Returns SearchResult. Traces are event lists from
    model.initial()."""
    t0 = time.time()
    res = SearchResult(name)
    init = model.initial()
    k0 = model.key(init)
    parent = {k0: None}
    frontier = collections.deque([(init, k0, 0)])
    res.states = 1
    rnd = None
    if order_seed:
        import random as _r
        rnd = _r.Random(order_seed)

    def trace_of(k, last=None):
        evs = []
        while parent[k] is not None:
            pk, ev = parent[k]
            evs.append(ev)
            k = pk
        evs.reverse()
        if last is not None:
            evs.append(last)
        return evs

    def report(v, trace):
        if isinstance(v, str):
            v = Violation(v)
        if known is not None and known.match(prop, v.sig):
            res.known[v.sig] = res.known.get(v.sig, 0) + 1
            return False
        res.violations.append(dict(msg=v.msg, sig=v.sig, trace=trace))
        return len(res.violations) >= max_violations

    v = model.check(init)
    if v:
        if report(v, []):
            res.wall_s = time.time() - t0
            return res
    outcome = getattr(model, 'outcome', None)
    stop = False
    while frontier and not stop:
        state, k, depth = frontier.popleft()
        res.max_depth = max(res.max_depth, depth)
        evs = list(model.events(state))
        if rnd is not None:
            rnd.shuffle(evs)
        if outcome is not None:
            res.outcomes.add(outcome(state))
        if not evs and len(res.samples) < 3:
            res.samples.append(trace_of(k))
        for ev in evs:
            res.transitions += 1
            try:
                nxt = model.apply(state, ev)
            except Violation as v:
                if report(v, trace_of(k, ev)):
                    stop = True
                    break
                continue
            if nxt is None:
                continue
            nk = model.key(nxt)
            if nk in parent:
                continue
            parent[nk] = (k, ev)
            res.states += 1
            v = model.check(nxt)
            if v:
                if report(v, trace_of(nk)):
                    stop = True
                    break
                continue   # do not explore beyond a violating / known-finding state
            frontier.append((nxt, nk, depth + 1))
            if sample_every and res.states % sample_every == 0 and len(res.samples) < 5:
                res.samples.append(trace_of(nk))
        if max_states and res.states >= max_states:
            res.exhaustive = False
            res.cap_hit = 'max_states=%d (depth %d fully covered)' % (max_states, depth)
            break
        if time_limit and time.time() - t0 > time_limit:
            res.exhaustive = False
            res.cap_hit = 'time_limit=%ds (depth %d fully covered)' % (time_limit, depth)
            break
    if not res.samples:
        # deepest state reached
        last = None
        for last in parent:
            pass
        if last is not None:
            res.samples.append(trace_of(last))
    res.wall_s = time.time() - t0
    return res


def replay(model, trace):
    """Re-execute a trace without the explorer. Returns (violation message or None, keys)."""
    state = model.initial()
    keys = [model.key(state)]
    v = model.check(state)
    if v:
        return (v.msg if isinstance(v, Violation) else v), keys
    for ev in trace:
        ev = model.decode_event(ev) if hasattr(model, 'decode_event') else ev
        try:
            state = model.apply(state, ev)
        except Violation as v:
            return v.msg, keys
        if state is None:
            raise HarnessError('replay: event %r not enabled' % (ev,))
        keys.append(model.key(state))
        v = model.check(state)
        if v:
            return (v.msg if isinstance(v, Violation) else v), keys
    return None, keys


# --------------------------------------------------------------------------------------
# Parallel job runner

def _run_job(args):
    fn, kwargs = args
    try:
        return fn(**kwargs)
    except Exception:
        r = SearchResult(kwargs.get('name', 'job'))
        r.extra['harness_error'] = traceback.format_exc()
        return r


def run_jobs(jobs, workers=None):
    """jobs: list of (function, kwargs). Functions must be module-level. Returns results in
    order."""
    import multiprocessing as mp
    workers = workers or int(os.environ.get('VERIF_WORKERS', '0')) or min(16, os.cpu_count() or 1)
    if workers <= 1 or len(jobs) <= 1:
        return [_run_job(j) for j in jobs]
    ctx = mp.get_context('fork')
    with ctx.Pool(min(workers, len(jobs)), maxtasksperchild=1) as pool:
        return pool.map(_run_job, jobs, chunksize=1)


# --------------------------------------------------------------------------------------
# Evidence / reporting

def jsonable(x):
    if isinstance(x, (str, int, float, bool)) or x is None:
        return x
    if isinstance(x, bytes):
        try:
            return x.decode('ascii')
        except Exception:
            return 'hex:' + x.hex()
    if isinstance(x, dict):
        return {str(k): jsonable(v) for k, v in x.items()}
    if isinstance(x, (list, tuple, set, frozenset)):
        return [jsonable(v) for v in x]
    return repr(x)


class Report(object):
    """Collects job results for one property check, writes evidence + replays, prints
    VIOLATION / KNOWN-FINDING lines, and gives the exit code."""

    def __init__(self, prop, tier, seed, technique, assumptions=None):
        self.prop = prop
        self.tier = tier
        self.seed = seed
        self.technique = technique
        self.assumptions = list(assumptions or [])
        self.results = []
        self.t0 = time.time()
        self.extra = {}
        self.harness_errors = []
        self.replay_fn = None   # callable(job_name, trace) -> msg or None, for confirmation

    def add(self, results):
        for r in results:
            self.results.append(r)
            if 'harness_error' in r.extra:
                self.harness_errors.append((r.name, r.extra['harness_error']))

    def finish(self):
        known = KnownFindings()
        states = sum(r.states for r in self.results)
        transitions = sum(r.transitions for r in self.results)
        violations = []
        known_hits = {}
        for r in self.results:
            for v in r.violations:
                violations.append((r, v))
            for s, c in r.known.items():
                known_hits[s] = known_hits.get(s, 0) + c
        samples = []
        for r in self.results:
            for s in r.samples[:1]:
                samples.append(dict(job=r.name, trace=jsonable(s)))
        samples = samples[:12]
        if not samples:
            samples = [dict(job='none', trace=[])]
        exhaustive = all(r.exhaustive for r in self.results) and not self.harness_errors
        outcomes = sum(len(r.outcomes) for r in self.results)
        cov = dict(states=states, transitions=transitions,
                   traces_validated_against_impl=transitions,
                   samples=samples, exhaustive=exhaustive,
                   distinct_outcomes=outcomes,
                   jobs=[r.to_json() for r in self.results],
                   technique=self.technique,
                   explanation='every transition is executed on the real implementation '
                               '(module-level environment seams only), so each explored '
                               'transition is a trace validated against the implementation')
        cov.update(self.extra)
        rc = 0
        out_lines = []
        for sig, c in sorted(known_hits.items()):
            txt = known.match(self.prop, sig) or ('sig=' + sig)
            if txt.startswith('property='):
                txt = txt.split(' ', 1)[1]
            out_lines.append('KNOWN-FINDING: property=%s %s (matched %d transitions in this run)' % (self.prop, txt, c))
        nviol = 0
        rdir = os.path.join(os.environ.get('VERIF_REPLAY_DIR') or os.path.join(VERIF, 'replays'), self.prop)
        if os.path.isdir(rdir) and not os.environ.get('VERIF_KEEP_REPLAYS'):
            for fn in os.listdir(rdir):
                try:
                    os.remove(os.path.join(rdir, fn))
                except OSError:
                    pass
        for i, (r, v) in enumerate(violations):
            path = os.path.join(rdir, '%s_%d.json' % (
                r.name.replace('/', '_').replace(' ', '_')[:80], i))
            os.makedirs(os.path.dirname(path), exist_ok=True)
            confirmed = True
            if self.replay_fn is not None:
                try:
                    m1 = self.replay_fn(r.name, v['trace'])
                    m2 = self.replay_fn(r.name, v['trace'])
                    confirmed = (m1 is not None and m1 == m2)
                    if not confirmed:
                        self.harness_errors.append((r.name, 'violation did not reproduce on replay: '
                                                    'explorer=%r replay1=%r replay2=%r' % (v['msg'], m1, m2)))
                except Exception:
                    confirmed = False
                    self.harness_errors.append((r.name, 'replay crashed: ' + traceback.format_exc()))
            with open(path, 'w') as f:
                json.dump(dict(property=self.prop, job=r.name, message=v['msg'], sig=v['sig'],
                               trace=jsonable(v['trace']), confirmed=confirmed,
                               raw_trace=repr(v['trace'])), f, indent=1)
            if confirmed:
                nviol += 1
                out_lines.append('VIOLATION property=%s replay=%s' % (self.prop, path))
                out_lines.append('  job=%s: %s' % (r.name, v['msg']))
        ev = dict(property_id=self.prop, tier=self.tier, seed=self.seed, level='model_checking',
                  coverage=cov, assumptions=self.assumptions,
                  wall_s=round(time.time() - self.t0, 2), violations=nviol)
        evdir = os.environ.get('VERIF_EVIDENCE_DIR') or os.path.join(VERIF, 'evidence')
        os.makedirs(evdir, exist_ok=True)
        with open(os.path.join(evdir, self.prop + '.json'), 'w') as f:
            json.dump(ev, f, indent=1)
        for l in out_lines:
            print(l)
        print('%s tier=%s: jobs=%d states=%d transitions=%d outcomes=%d exhaustive=%s wall=%.1fs' % (
            self.prop, self.tier, len(self.results), states, transitions, outcomes, exhaustive,
            time.time() - self.t0))
        for r in self.results:
            if not r.exhaustive:
                print('  note: job %s not exhaustive: %s' % (r.name, r.cap_hit))
        if self.harness_errors:
            for name, err in self.harness_errors:
                sys.stderr.write('HARNESS ERROR in %s:\n%s\n' % (name, err))
            return 2
        return 1 if nviol else 0
