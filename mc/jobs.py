"""Generic cluster job: (config, seed, budget, monitors) -> SearchResult. Module-level so that
it can be shipped to worker processes."""
import time

from mc import core


def build_model(cfg=None, seed='fresh', seed_kw=None, budget=None, clauses=('C01', 'C02', 'C03', 'C04'),
                extra_monitors=(), name='job'):
    from mc import cluster, monitors, seeds
    c = cluster.Config(**(cfg or {}))
    mons = [monitors.SafetyMonitor(clauses)]
    for spec in extra_monitors:
        modname, clsname, kw = spec
        import importlib
        mod = importlib.import_module(modname)
        mons.append(getattr(mod, clsname)(**kw))
    return cluster.ClusterModel(c, seeds.make_prefix(seed, **(seed_kw or {})), budget or {}, mons, name=name)


def cluster_job(name, prop, cfg=None, seed='fresh', seed_kw=None, budget=None, clauses=('C01', 'C02', 'C03', 'C04'),
                extra_monitors=(), max_states=None, time_limit=None, order_seed=0, post=None):
    t0 = time.time()
    m = build_model(cfg, seed, seed_kw, budget, clauses, extra_monitors, name)
    known = core.KnownFindings()
    try:
        res = core.bfs(m, name=name, max_states=max_states, known=known, prop=prop, time_limit=time_limit,
                       order_seed=order_seed)
    except core.Violation as v:
        # violated during the scripted prefix
        res = core.SearchResult(name)
        res.states = res.transitions = len(m.prefix_events)
        if known.match(prop, v.sig):
            res.known[v.sig] = 1
        else:
            res.violations.append(dict(msg=v.msg, sig=v.sig, trace=[]))
    res.extra.update(dict(seed=seed, seed_kw=seed_kw or {}, budget=budget or {}, config=m.cfg.describe(),
                          prefix_len=len(m.prefix_events), seed_shape_ok=m.seed_shape_ok,
                          node_steps_executed=m.st.node_steps, distinct_node_states=len(m.st.store),
                          exceptions_seen=dict(m.exceptions_seen)))
    # determinism self-check: re-execute one explored path (the deepest sample) twice on fresh models and
    # compare the canonical key after every step; any difference is a harness error, not a finding
    if res.samples and not res.violations and 'harness_error' not in res.extra:
        path = [tuple(e) for e in res.samples[-1]]
        try:
            keysets = []
            for _ in range(2):
                m2 = build_model(cfg, seed, seed_kw, budget, clauses, extra_monitors, name)
                msg, keys = core.replay(m2, path)
                keysets.append((msg, keys))
            if keysets[0] != keysets[1]:
                res.extra['harness_error'] = 'nondeterminism: replaying the same path twice gave different states (%r)' % (path,)
            res.extra['determinism_replays'] = 2
        except core.Violation as v:
            res.extra['harness_error'] = 'determinism replay raised: %s' % v.msg
        except core.HarnessError as e:
            res.extra['harness_error'] = 'determinism replay failed: %r' % (e,)
    res.samples = [list(m.prefix_events) + ['|'] + s for s in res.samples][:2]
    for v in res.violations:
        v['prefix'] = list(m.prefix_events)
    res.wall_s = time.time() - t0
    return res


def replay_cluster(spec, trace):
    """spec: the kwargs of cluster_job. Returns violation message or None."""
    kw = {k: spec[k] for k in ('cfg', 'seed', 'seed_kw', 'budget', 'clauses', 'extra_monitors') if k in spec}
    try:
        m = build_model(name=spec.get('name', 'replay'), **kw)
        msg, keys = core.replay(m, [tuple(e) for e in trace])
    except core.Violation as v:
        return v.msg
    return msg


# --------------------------------------------------------------------------------------
# Running a table of cluster jobs as one property check

def J(name, seed='fresh', cfg=None, budget=None, seed_kw=None, max_states=None, **kw):
    d = dict(name=name, seed=seed, cfg=cfg or {}, budget=budget or {}, seed_kw=seed_kw or {}, max_states=max_states)
    d.update(kw)
    return d


def run_cluster_check(prop, tier, seed, specs, clauses, technique, assumptions, job_filter=None,
                      extra_monitors=(), default_cap=None, extra_results=None, extra_replay=None):
    rep = core.Report(prop, tier, seed, technique, assumptions)
    table = {}
    jobs = []
    for s in specs:
        s = dict(s)
        s.setdefault('clauses', tuple(clauses))
        s.setdefault('extra_monitors', tuple(extra_monitors))
        if s.get('max_states') is None:
            s['max_states'] = default_cap
        s['prop'] = prop
        s['order_seed'] = seed
        table[s['name']] = s
        if job_filter and job_filter not in s['name']:
            continue
        jobs.append((cluster_job, s))
    rep.replay_fn = lambda name, trace: (replay_cluster(table[name], trace) if name in table else extra_replay(name, trace))
    # biggest first for better packing
    rep.add(core.run_jobs(jobs))
    if extra_results:
        rep.add(extra_results)
    rep.extra['node_steps_executed'] = sum(r.extra.get('node_steps_executed', 0) for r in rep.results)
    rep.extra['seed_shapes_ok'] = all(r.extra.get('seed_shape_ok', True) for r in rep.results)
    # keep the spec of every violated job in the replay file directory
    rc = rep.finish()
    import json, os
    for r in rep.results:
        if r.violations and r.name in table:
            p = os.path.join(core.VERIF, 'replays', prop, 'spec_%s.json' % r.name.replace('/', '_').replace(' ', '_')[:80])
            with open(p, 'w') as f:
                json.dump(core.jsonable(table[r.name]), f)
    return rc


def replay_file_cluster(prop, path, specs):
    import json
    d = json.load(open(path))
    table = {s['name']: s for s in specs}
    spec = table.get(d['job'])
    if spec is None:
        print('unknown job', d['job'])
        return 2
    msg = replay_cluster(spec, d['trace'])
    print('replay:', msg)
    if msg:
        print('VIOLATION property=%s replay=%s' % (prop, path))
        return 1
    return 0
