"""Simulated non-blocking TCP sockets + an explorer-driven poller, for running the real
TcpConnection / TcpServer / TCPTransport code (engines E2/E4).

A Net owns all sockets of one world. A stream connection is a pair of SimSockets; each
direction has a sender-side buffer `out` (bytes accepted by send(), bounded) and a
receiver-side buffer `rcv` (bytes that recv() can return). Moving bytes from `out` to the
peer's `rcv` is an explorer event, so every fragmentation of the byte stream is reachable.
"""
import errno as _errno

NET = [None]     # the Net of the world whose step is running


class SockError(OSError):
    pass


class SimSocket(object):
    def __init__(self, net, fd):
        self.net = net
        self.fd = fd
        self.state = 'new'          # new | connecting | connected | listening | closed
        self.peer = None            # fd of the other end
        self.out = bytearray()      # accepted from send(), not yet transferred
        self.rcv = bytearray()      # available to recv()
        self.cap = net.sndcap
        self.eof = False            # peer closed (orderly): recv returns b'' after rcv is drained
        self.err = 0                # pending SO_ERROR (e.g. ECONNREFUSED, ECONNRESET)
        self.addr = None            # bound / connected address
        self.backlog = []           # listening: fds of established, not yet accepted connections
        self.blackhole = False      # packets silently dropped
        self.owner = None           # index of the simulated process that owns the descriptor
        self.fail_next_send = False  # the connection is reset just as the next send() is issued (poll saw nothing yet)

    # -- calls made by the library
    def fileno(self):
        return self.fd

    def setsockopt(self, *a):
        pass

    def setblocking(self, flag):
        pass

    def getsockopt(self, level, opt):
        if opt == FakeSocketModule.SO_ERROR:
            e, self.err = self.err, 0
            return e
        return 0

    def bind(self, addr):
        if addr[1] in self.net.listeners:
            raise SockError(_errno.EADDRINUSE, 'Address already in use')
        self.addr = addr

    def listen(self, n):
        self.state = 'listening'
        self.net.listeners[self.addr[1]] = self.fd      # one host per port in the simulated network

    def connect(self, addr):
        if self.owner in self.net.unreachable:
            # no route (interface down): the OS refuses the attempt at once, not through the poller
            raise SockError(_errno.ENETUNREACH, 'Network is unreachable')
        self.addr = addr
        self.state = 'connecting'
        self.net.pending_connects.append(self.fd)
        raise SockError(_errno.EINPROGRESS, 'Operation now in progress')

    def accept(self):
        if not self.backlog:
            raise SockError(_errno.EAGAIN, 'Resource temporarily unavailable')
        fd = self.backlog.pop(0)
        return self.net.sockets[fd], ('peer', fd)

    def send(self, data):
        if self.state == 'closed':
            raise SockError(_errno.EBADF, 'Bad file descriptor')
        if self.err:
            e, self.err = self.err, 0
            raise SockError(e, 'send error')
        if self.fail_next_send:
            self.fail_next_send = False
            p = self.net.sockets.get(self.peer) if self.peer is not None else None
            if p is not None and p.state != 'closed':
                p.err = _errno.ECONNRESET
                p.rcv = bytearray()
            self.out = bytearray()
            raise SockError(_errno.ECONNRESET, 'Connection reset by peer')
        if self.state == 'connecting':
            # Linux: a non-blocking send on a socket whose connect is still in progress returns EAGAIN
            raise SockError(_errno.EAGAIN, 'Resource temporarily unavailable')
        if self.state != 'connected':
            raise SockError(_errno.ENOTCONN, 'not connected')
        free = self.cap - len(self.out)
        if free <= 0:
            raise SockError(_errno.EAGAIN, 'Resource temporarily unavailable')
        n = min(free, len(data))
        self.out += bytes(data[:n])
        return n

    def recv(self, n):
        if self.state == 'closed':
            raise SockError(_errno.EBADF, 'Bad file descriptor')
        if self.rcv:
            out = bytes(self.rcv[:n])
            del self.rcv[:n]
            return out
        if self.err:
            e, self.err = self.err, 0
            raise SockError(e, 'recv error')
        if self.eof_ready():
            return b''
        raise SockError(_errno.EAGAIN, 'Resource temporarily unavailable')

    def eof_ready(self):
        """The end of the stream is seen only after every byte the peer wrote before it closed has arrived."""
        if not self.eof:
            return False
        p = self.net.sockets.get(self.peer) if self.peer is not None else None
        return not (p is not None and p.out and not p.blackhole)

    def close(self):
        if self.state == 'closed':
            return
        was = self.state
        self.state = 'closed'
        self.net.closed(self, was)

    def key(self):
        return (self.fd, self.state, self.peer, bytes(self.out), bytes(self.rcv), self.eof, self.err, self.addr,
                tuple(self.backlog), self.blackhole, self.owner, self.fail_next_send)


class Net(object):
    def __init__(self, sndcap=16):
        self.sockets = {}
        self.listeners = {}
        self.pending_connects = []
        self.sndcap = sndcap
        self.free_fds = []
        self.unreachable = set()    # owners whose connect() fails synchronously with ENETUNREACH

    def new_fd(self):
        fd = 3
        while fd in self.sockets and self.sockets[fd].state != 'closed':
            fd += 1
        return fd     # POSIX: lowest free descriptor (closed ones are reused)

    def socket(self, *a):
        fd = self.new_fd()
        s = SimSocket(self, fd)
        self.sockets[fd] = s
        return s

    def pair(self):
        a, b = self.socket(), None
        a.state = 'connected'
        b = self.socket()
        b.state = 'connected'
        a.peer, b.peer = b.fd, a.fd
        return a, b

    def closed(self, s, was):
        if was == 'listening':
            self.listeners.pop(s.addr[1], None)
        if s.fd in self.pending_connects:
            self.pending_connects.remove(s.fd)
        p = self.sockets.get(s.peer) if s.peer is not None else None
        if p is not None and p.state != 'closed' and p.peer == s.fd:
            if s.rcv:
                p.err = _errno.ECONNRESET     # closing with unread data resets the connection
                p.rcv = bytearray()
            else:
                p.eof = True                  # data already in flight (s.out) is still delivered

    # -- explorer events
    def transfer(self, fd, k=1):
        """Move k bytes of fd's outgoing data to its peer (fd may already be closed: data in
        flight is still delivered)."""
        s = self.sockets[fd]
        p = self.sockets.get(s.peer)
        data = bytes(s.out[:k])
        del s.out[:k]
        if p is not None and p.state == 'connected' and p.peer == fd and not s.blackhole:
            p.rcv += data

    def key(self):
        return (tuple(sorted(s.key() for s in self.sockets.values() if s.state != 'closed' or s.out)),
                tuple(sorted(self.listeners.items())), tuple(self.pending_connects), tuple(sorted(self.unreachable, key=repr)))


class _Errno(object):
    EAGAIN = _errno.EAGAIN
    EWOULDBLOCK = _errno.EWOULDBLOCK
    EINPROGRESS = _errno.EINPROGRESS


class FakeSocketModule(object):
    """Stands in for the `socket` module inside tcp_connection.py / tcp_server.py."""
    error = OSError
    errno = _Errno
    AF_INET = 2
    AF_INET6 = 10
    SOCK_STREAM = 1
    SOL_SOCKET = 1
    SO_ERROR = 4
    SO_SNDBUF = 7
    SO_RCVBUF = 8
    SO_REUSEADDR = 2
    SO_KEEPALIVE = 9
    IPPROTO_TCP = 6
    TCP_NODELAY = 1
    TCP_KEEPIDLE = 4
    TCP_KEEPINTVL = 5
    TCP_KEEPCNT = 6

    @staticmethod
    def socket(*a):
        return NET[0].socket(*a)

    @staticmethod
    def inet_aton(addr):
        parts = addr.split('.')
        if len(parts) != 4 or not all(p.isdigit() for p in parts):
            raise OSError('illegal IP address string')
        return b'\0\0\0\0'

    @staticmethod
    def inet_pton(fam, addr):
        raise OSError('illegal IP address string')

    @staticmethod
    def gethostname():
        return 'simhost'


class SimPoller(object):
    """Explorer-driven poller: the library subscribes/unsubscribes, the explorer dispatches."""

    def __init__(self):
        self.subs = {}     # fd -> (callback, mask)

    def subscribe(self, descr, callback, eventMask):
        self.subs[descr] = (callback, eventMask)

    def unsubscribe(self, descr):
        self.subs.pop(descr, None)

    def poll(self, timeout):
        pass

    def dispatch(self, fd, event):
        cb = self.subs.get(fd)
        if cb is None:
            return False
        cb[0](fd, event)
        return True

    def key(self):
        return tuple(sorted((fd, m) for fd, (cb, m) in self.subs.items()))


def install():
    import pysyncobj.tcp_connection as TC
    import pysyncobj.tcp_server as TS
    TC.socket = FakeSocketModule
    TS.socket = FakeSocketModule
