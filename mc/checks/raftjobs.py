"""Job tables shared by C01-C04 (same schedules, different oracle clauses)."""
from mc.jobs import J

SMALLB = 24     # appendEntriesBatchSizeBytes giving two 'put' entries per message


def common(tier):
    q = tier == 'quick'
    cap = 400000 if q else 3000000
    jobs = [
        J('fresh2:E2H1S1X1R1', 'fresh', dict(n=2), dict(E=2, H=1, S=1, X=1, R=1)),
        J('fresh3:E1H1S1', 'fresh', dict(n=3), dict(E=1, H=1, S=1)),
        J('steady3:E1H1S1', 'steady', dict(n=3), dict(E=1, H=1, S=1)),
        J('steady3:H2S2', 'steady', dict(n=3), dict(H=2, S=2)),
        J('steady2-nobatch:H1S2X1R1', 'steady', dict(n=2, batch=False), dict(H=1, S=2, X=1, R=1)),
        J('steady3-nobatch:H1S1X1', 'steady', dict(n=3, batch=False), dict(H=1, S=1, X=1)),
        J('lagging3:H2R1S1', 'lagging', dict(n=3), dict(H=2, R=1, S=1)),
        J('lagsnap3-1chunk:H2R1S1', 'lagging_snap', dict(n=3), dict(H=2, R=1, S=1)),
        J('lagsnap3-chunk64:H2R1', 'lagging_snap', dict(n=3, chunk=64), dict(H=2, R=1)),
        J('deposed3:H2R2E1', 'deposed', dict(n=3), dict(H=2, R=2, E=1)),
        J('deposed-runahead3:H2R1', 'deposed_runahead', dict(n=3), dict(H=2, R=1)),
        J('deposed3:H2R2X1', 'deposed', dict(n=3), dict(H=2, R=2, X=1)),
        J('deposedsnap3-1chunk:H2R2E1', 'deposed_snap', dict(n=3), dict(H=2, R=2, E=1)),
        J('deposedsnap3-chunk64:H2R2', 'deposed_snap', dict(n=3, chunk=64), dict(H=2, R=2)),
        J('pending3-b24-4:H1E1', 'pending', dict(n=3, batch_bytes=SMALLB), dict(H=1, E=1), dict(unrep=4)),
        J('pending3-b24:H3', 'pending', dict(n=3, batch_bytes=SMALLB), dict(H=3), dict(unrep=6)),
        J('pipeline3-b24:H2R1', 'reconnect_pipeline', dict(n=3, batch_bytes=SMALLB), dict(H=2, R=1), dict(unrep=4)),
        J('deposed2x3-b24:H2R2', 'deposed_twice', dict(n=3, batch_bytes=SMALLB), dict(H=2, R=2)),
        J('deposed2x3:H2R2E1', 'deposed_twice', dict(n=3), dict(H=2, R=2, E=1)),
        J('forwarded3:H1E1X1', 'forwarded', dict(n=3), dict(H=1, E=1, X=1)),
        J('forwardedstale3:S1H1', 'forwarded_stale', dict(n=3), dict(S=1, H=1)),
        J('fig8-3-b8:H1R1E1', 'fig8', dict(n=3, batch_bytes=8), dict(H=1, R=1, E=1)),
        J('fig8-3:H1R1E1', 'fig8', dict(n=3), dict(H=1, R=1, E=1)),
        J('fig8full-3-b8:H1R1', 'fig8_full', dict(n=3, batch_bytes=8), dict(H=1, R=1)),
        J('ahead3:H4K1', 'ahead', dict(n=3), dict(H=4, K=1), dict(unrep=4)),
        J('aheadfull3:H1S1', 'ahead_full', dict(n=3), dict(H=1, S=1)),
        J('stalesnap3:H2S1', 'stale_snapshot', dict(n=3), dict(H=2, S=1)),
        J('candidates4', 'candidates', dict(n=4, fuse=True), dict()),
        J('stalevote5', 'stale_vote5', dict(n=5, fuse=True), dict(), max_states=250000),
        J('reelected5:H2', 'reelected5', dict(n=5, fuse=True), dict(H=2), max_states=250000),
        J('stalereset5-b24:H1', 'stale_reset5', dict(n=5, batch_bytes=SMALLB, fuse=True), dict(H=1), max_states=250000),
        J('splitvote5:E1', 'split_vote5', dict(n=5), dict(E=1), extra_monitors=(('mc.monitors', 'ObserverMonitor', {}),)),
        J('lateack-resend3-b24:H2', 'lateack_resend', dict(n=3, batch_bytes=SMALLB), dict(H=2)),
        J('candidates5x2', 'candidates', dict(n=5, fuse=True), dict()),
        J('pipeline3:H2R1K1', 'reconnect_pipeline', dict(n=3), dict(H=2, R=1, K=1), dict(unrep=4)),
        J('steady3-k3:H1S1K1X1', 'steady', dict(n=3), dict(H=1, S=1, K=1, X=1), dict(k=3)),
    ]
    if not q:
        jobs += [
            J('fig8-3-b8:H2R1E2', 'fig8', dict(n=3, batch_bytes=8), dict(H=2, R=1, E=2)),
            J('fig8-3:H2R1E2', 'fig8', dict(n=3), dict(H=2, R=1, E=2)),
            J('fresh3:E2H1S1', 'fresh', dict(n=3), dict(E=2, H=1, S=1)),
            J('fresh4:E2', 'fresh', dict(n=4), dict(E=2)),
            J('fresh4:E2H1', 'fresh', dict(n=4), dict(E=2, H=1)),
            J('fresh5:E2', 'fresh', dict(n=5), dict(E=2)),
            J('steady3:E1H2S1X1R1', 'steady', dict(n=3), dict(E=1, H=2, S=1, X=1, R=1)),
            J('deposed3:H3R2E1S1', 'deposed', dict(n=3), dict(H=3, R=2, E=1, S=1)),
            J('deposedsnap3-chunk64:H3R2E1', 'deposed_snap', dict(n=3, chunk=64), dict(H=3, R=2, E=1)),
            J('pending3-b24:H3E1', 'pending', dict(n=3, batch_bytes=SMALLB), dict(H=3, E=1), dict(unrep=6)),
            J('lagsnap3-chunk64:H3R1S1X1', 'lagging_snap', dict(n=3, chunk=64), dict(H=3, R=1, S=1, X=1)),
        ]
    for j in jobs:
        if j.get('max_states') is None:
            j['max_states'] = cap
    return jobs
