"""C10 - membership changes keep safety and every node agrees on the member set (engine E1)."""
from mc import jobs
from mc.jobs import J

PROP = 'C10'
TECH = 'explicit-state BFS over real SyncObj nodes with dynamicMembershipChange: add/remove requests via API and via the admin message handler on any node at any time, spawn of added nodes, shutdown of removed nodes, combined with elections, heartbeats, drops'
ASSUME = ['operator discipline of the property: a node is shut down only after its removal committed; an added node is spawned empty with the member list of a node that already lists it',
          'majorities in the oracle = majority of the deciding node own member set',
          'reconnects only between nodes that list each other (the TCP transport refuses unknown peers)']
MONS = (('mc.monitors_c10', 'MembershipMonitor', {}),)
CL = ('C01', 'C02', 'C03', 'C04', 'C10')


def specs(tier):
    q = tier == 'quick'
    api = (('mc.monitors_c10', 'MembershipMonitor', dict(via=('api',))),)
    js = [
        J('m-steady2+1:M2H2', 'steady', dict(n=2, dyn=True, spare=1), dict(M=2, H=2), dict(k=0), extra_monitors=api),
        J('m-steady3:M2H2', 'steady', dict(n=3, dyn=True), dict(M=2, H=2), dict(k=0), extra_monitors=api),
        J('m-steady2+1:M1H2R2S1', 'steady', dict(n=2, dyn=True, spare=1), dict(M=1, H=2, R=2, S=1), dict(k=0), extra_monitors=api),
        J('m-steady3+1:M1H1R3', 'steady', dict(n=3, dyn=True, spare=1), dict(M=1, H=1, R=3), dict(k=0), extra_monitors=api),
        J('m-steady3:M1H1E1', 'steady', dict(n=3, dyn=True), dict(M=1, H=1, E=1), dict(k=0), extra_monitors=api),
        J('m-deposed3:H2R2', 'm_deposed', dict(n=3, dyn=True), dict(H=2, R=2), extra_monitors=api),
        J('m-deposed3-ahead:H3R1', 'm_deposed', dict(n=3, dyn=True), dict(H=3, R=1), dict(unnoticed=True), extra_monitors=api),
        J('m-deposed3-addexisting:H2R2', 'm_deposed', dict(n=3, dyn=True), dict(H=2, R=2), dict(op='add'), extra_monitors=api),
        J('m-readd-lateack3+1-b24:H1', 'm_readd_lateack', dict(n=3, dyn=True, spare=1, batch_bytes=24), dict(H=1), extra_monitors=api),
        J('m-deposed3+1-repeat:H2R2', 'm_deposed', dict(n=3, dyn=True, spare=1), dict(H=2, R=2), dict(op='add', victim='n4:1', newk=0, repeat=True), extra_monitors=api),
        J('m-deposed3-tail2:H2R2', 'm_deposed', dict(n=3, dyn=True), dict(H=2, R=2), dict(pre=1, newk=0), extra_monitors=api),
        J('m-lagsnap-added3+1:H2R1', 'm_lagsnap_added', dict(n=3, dyn=True, spare=1), dict(H=2, R=1), extra_monitors=api),
        J('m-lagsnap3:H2R1', 'lagging_snap', dict(n=3, dyn=True), dict(H=2, R=1), extra_monitors=api),
        J('m-steady2-admin:M2H1', 'steady', dict(n=2, dyn=True, spare=1), dict(M=2, H=1), dict(k=0)),
        J('m-fresh3:E1M1', 'fresh', dict(n=3, dyn=True), dict(E=1, M=1), extra_monitors=api),
        J('m-journal-steady2+1:M1K1P1H1', 'steady', dict(n=2, dyn=True, spare=1, journal='file+dump'), dict(M=1, K=1, P=1, H=1), dict(k=0),
          extra_monitors=api),
        J('m-single1+1:M1H2R1S1', 'steady', dict(n=1, dyn=True, spare=1), dict(M=1, H=2, R=1, S=1), dict(k=0), extra_monitors=api),
    ]
    if not q:
        js += [
    J('m-steady3-addexisting:M1H1E1', 'steady', dict(n=3, dyn=True), dict(M=1, H=1, E=1), dict(k=0),
          extra_monitors=(('mc.monitors_c10', 'MembershipMonitor', dict(via=('api',), add_existing=True)),)),
            J('m-steady3+1:M2H2R3', 'steady', dict(n=3, dyn=True, spare=1), dict(M=2, H=2, R=3), dict(k=0), extra_monitors=api),
            J('m-steady3:M2H2E1', 'steady', dict(n=3, dyn=True), dict(M=2, H=2, E=1), dict(k=0), extra_monitors=api),
            J('m-steady4:M2H2', 'steady', dict(n=4, dyn=True), dict(M=2, H=2), dict(k=0), extra_monitors=api),
        ]
    for j in js:
        j['max_states'] = 300000 if q else 2500000
    return js


def main(tier, seed, job_filter=None):
    return jobs.run_cluster_check(PROP, tier, seed, specs(tier), CL, TECH, ASSUME, job_filter, extra_monitors=MONS)


def replay_file(path):
    return jobs.replay_file_cluster(PROP, path, [dict({'extra_monitors': MONS}, **dict(s, clauses=CL)) for s in specs('thorough')])
