"""C08 - file journal == in-memory list for any operation sequence, and kill-safe.

Explicit-state BFS over operation sequences on the real FileJournal bound to the simulated
file system (mc.vfs); reference = Python list. In every explored state: equality with the list,
equality after a clean reopen; for every operation enabled in that state and every OS-visible
mutation it performs: kill before that mutation, reopen, compare with the crash oracle.
Conformance of the simulated file system: the same operation sequences (depth <= 3) are run
by a pristine copy of journal.py on real temporary files and the resulting bytes compared.
"""
import copy
import hashlib
import struct
import os
import shutil
import tempfile

from mc import core, vfs

PATH = '/j/journal.bin'


def cmd_bytes(n, size):
    return bytes([65 + n % 26]) * size


class Bundle(object):
    def __init__(self):
        self.vfs = vfs.VFS()
        self.j = None
        self.ref = []          # reference list of (command, idx, term)
        self.n = 0             # number of adds so far (defines the next entry)
        self.commit_set = (1,)  # values that were actually set (1 = documented default)
        self.explicit = ()      # values set through setRaftCommitIndex
        self.cur_commit = None
        self.depth = 0
        self.crashes = 0


def entry_sizes(b, J):
    """Boundary-dense record sizes relative to the space left in the file."""
    fsize = len(b.vfs.files[PATH])
    # current offset = end of last record; recompute from reference list
    off = J.FIRST_RECORD_OFFSET + sum(len(c) + 24 for c, _, _ in b.ref)
    rem = fsize - off
    s = {0, 1, 7}
    for d in (-1, 0, 1):
        v = rem - 24 + d
        if v >= 0:
            s.add(v)
    if fsize <= 2048:
        s.add(int(2.5 * fsize))
    if fsize <= 1024:
        s.add(int(4.5 * fsize))      # needs three doublings of the file
    return sorted(s)


class JournalModel(object):
    def __init__(self, depth, crash=True, crash_continue=0, first=None):
        self.first = first        # explore only the subtree below this first operation (parallel split)
        self.J = vfs.install_journal()
        self.depth = depth
        self.crash = crash
        self.crash_continue = crash_continue
        self.crash_points = 0
        self.reopens = 0

    def initial(self):
        b = Bundle()
        vfs.activate(b.vfs)
        b.vfs.begin_step()
        b.j = self.J.FileJournal(PATH)
        if self.first is not None:
            f, self.first = self.first, None
            try:
                b = self.apply(b, tuple(f))
            finally:
                self.first = f
        return b

    def events(self, b):
        if b.depth >= self.depth:
            return []
        evs = [('add', s) for s in entry_sizes(b, self.J)]
        n = len(b.ref)
        evs += [('delFrom', i) for i in range(n + 1)]
        evs += [('delTo', i) for i in range(n + 1)]
        evs += [('clear',), ('timer',), ('reopen',)]
        evs += [('setCommit', v) for v in (2, 5)]
        return evs

    def key(self, b):
        meta = b.vfs.files.get(PATH + '.meta')
        # the journal object's own scalar fields (write offset, dirty flag) and the file bytes are part of the
        # state: two histories with equal contents but a different write position have different futures
        hidden = tuple(sorted((k, v) for k, v in vars(b.j).items() if isinstance(v, (int, bool, bytes, str))))
        # (a 128-bit digest of the) file bytes up to the furthest position anything points to (published end of records, in-memory write
        # offset): what lies beyond is written before it can be read, so it cannot change a future
        data = b.vfs.files[PATH]
        off = self.J.LAST_RECORD_OFFSET_OFFSET
        cut = struct.unpack('<I', bytes(data[off:off + 4]))[0] if len(data) >= off + 4 else len(data)
        cut = max([cut] + [v for k, v in hidden if k.endswith('currentOffset') and isinstance(v, int)])
        return (tuple((len(c), c[:1], i, t) for c, i, t in b.ref), hashlib.blake2b(bytes(data[:cut]), digest_size=16).digest(), len(data),
                bytes(meta) if meta is not None else None, b.cur_commit, b.commit_set, b.depth,
                b.crashes, hidden)

    def outcome(self, b):
        return (tuple(len(c) for c, _, _ in b.ref), len(b.vfs.files[PATH]))

    # -- executing one operation on a bundle (mutates the bundle)
    def _do(self, b, ev):
        j = b.j
        op = ev[0]
        if op == 'add':
            e = (cmd_bytes(b.n, ev[1]), b.n + 1, b.n)
            j.add(*e)
        elif op == 'delFrom':
            j.deleteEntriesFrom(ev[1])
        elif op == 'delTo':
            j.deleteEntriesTo(ev[1])
        elif op == 'clear':
            j.clear()
        elif op == 'timer':
            j.onOneSecondTimer()
        elif op == 'setCommit':
            j.setRaftCommitIndex(ev[1])
        elif op == 'reopen':
            j._destroy()
            b.j = self.J.FileJournal(PATH)

    def _ref(self, b, ev):
        op = ev[0]
        if op == 'add':
            b.ref.append((cmd_bytes(b.n, ev[1]), b.n + 1, b.n))
            b.n += 1
        elif op == 'delFrom':
            del b.ref[ev[1]:]
        elif op == 'delTo':
            b.ref = b.ref[ev[1]:]
        elif op == 'clear':
            b.ref = []
        elif op == 'setCommit':
            b.cur_commit = ev[1]
            b.commit_set = tuple(sorted(set(b.commit_set) | {ev[1]}))
            b.explicit = tuple(sorted(set(b.explicit) | {ev[1]}))

    def _entries(self, j):
        return [tuple(j[i]) for i in range(len(j))]

    def _crash_oracle(self, prev, ev, n, got):
        """got must be a contiguous range of prev (plus the new entry for an add, all or
        nothing) containing everything the operation was meant to keep."""
        op = ev[0]
        if op == 'add':
            new = (cmd_bytes(n, ev[1]), n + 1, n)
            return got == prev or got == prev + [new]
        if op == 'delFrom':
            return any(got == prev[:k] for k in range(ev[1], len(prev) + 1))
        if op == 'delTo':
            return any(got == prev[a:] for a in range(0, ev[1] + 1))
        if op == 'clear':
            return any(got == prev[a:bb] for a in range(len(prev) + 1) for bb in range(a, len(prev) + 1))
        return got == prev

    def apply(self, b, ev):
        pre = b
        b = copy.deepcopy(pre)
        vfs.activate(b.vfs)
        b.vfs.begin_step()
        prev = list(b.ref)
        try:
            self._do(b, ev)
        except Exception as e:
            raise core.Violation('%r on journal %r (file %d bytes) raised %s: %s' % (
                ev, [len(c) for c, _, _ in prev], len(pre.vfs.files[PATH]), type(e).__name__, e),
                sig='journal-op-raises')
        w = b.vfs.nwrites
        self._ref(b, ev)
        b.depth += 1
        # crash points of this operation
        if self.crash:
            for k in range(w):
                c = copy.deepcopy(pre)
                vfs.activate(c.vfs)
                c.vfs.begin_step(kill_at=k, log=True)
                try:
                    self._do(c, ev)
                    raise core.HarnessError('kill point %d of %r not reached' % (k, ev))
                except vfs.Killed:
                    pass
                self.crash_points += 1
                done = list(c.vfs.log or [])
                c.vfs.begin_step()
                try:
                    j2 = self.J.FileJournal(PATH)
                    got = self._entries(j2)
                    ci = j2.getRaftCommitIndex()
                except Exception as e:
                    raise core.Violation('kill before mutation %d %r of %r on %r: reopen raised %s: %s' % (
                        k, done, ev, [len(x) for x, _, _ in prev], type(e).__name__, e), sig='journal-crash-reopen-raises')
                if not self._crash_oracle(prev, ev, pre.n, got):
                    raise core.Violation('kill before mutation %d of %r (done so far: %r) on journal with entry sizes %r: '
                                         'reopened journal holds entry sizes %r' % (
                                             k, ev, done, [len(x) for x, _, _ in prev], [len(x) for x, _, _ in got]),
                                         sig='journal-kill-' + ev[0])
                allowed = set(pre.commit_set) | ({ev[1]} if ev[0] == 'setCommit' else set())
                meta0 = pre.vfs.files.get(PATH + '.meta')
                if meta0 and 1 not in pre.explicit:
                    # a commit index had been stored before this operation began: falling back to the built-in
                    # default means the stored value was lost, and the default was never set by anybody
                    allowed.discard(1)
                if ci not in allowed:
                    raise core.Violation('kill in %r: stored commit index %r was never set (%r)' % (ev, ci, sorted(allowed)))
        vfs.activate(b.vfs)
        return b

    def check(self, b):
        vfs.activate(b.vfs)
        got = self._entries(b.j)
        if got != b.ref:
            return 'journal content differs from list: journal sizes %r, list sizes %r' % (
                [len(c) for c, _, _ in got], [len(c) for c, _, _ in b.ref])
        if len(b.j) != len(b.ref):
            return 'len differs'
        n = len(b.ref)
        if n:
            if tuple(b.j[-1]) != b.ref[-1] or [tuple(x) for x in b.j[0:2]] != b.ref[0:2] or \
                    [tuple(x) for x in b.j[n // 2:]] != b.ref[n // 2:]:
                return 'slice/negative index differs from list'
        # clean reopen on a copy of the files
        c = b.vfs.clone_files()
        vfs.activate(c)
        c.begin_step()
        self.reopens += 1
        try:
            j2 = self.J.FileJournal(PATH)
            got2 = self._entries(j2)
            ci = j2.getRaftCommitIndex()
        except Exception as e:
            vfs.activate(b.vfs)
            return core.Violation('reopen raised %s: %s' % (type(e).__name__, e))
        vfs.activate(b.vfs)
        if got2 != b.ref:
            return 'after reopen journal sizes %r, list sizes %r' % ([len(c) for c, _, _ in got2], [len(c) for c, _, _ in b.ref])
        if ci not in b.commit_set:
            return 'after reopen commit index %r was never set (%r)' % (ci, b.commit_set)
        return None


def job(name, depth, crash, first=None):
    m = JournalModel(depth, crash=crash, first=first)
    res = core.bfs(m, name=name, known=core.KnownFindings(), prop='C08')
    res.extra['crash_points'] = m.crash_points
    res.extra['clean_reopens'] = m.reopens
    return res


def conformance_job(name, depth):
    """Every op sequence up to `depth` on the VFS and on real files (pristine journal.py)."""
    import itertools
    res = core.SearchResult(name)
    Jp = vfs.pristine_module('journal')
    m = JournalModel(depth, crash=False)
    tmp = tempfile.mkdtemp(prefix='verif_c08_')
    checked = 0
    try:
        frontier = [([], m.initial())]
        while frontier:
            hist, b = frontier.pop()
            if len(hist) >= depth:
                continue
            for ev in m.events(b):
                if ev[0] == 'add' and ev[1] > 3000:
                    continue
                try:
                    nb = m.apply(b, ev)
                except core.Violation:
                    continue
                h2 = hist + [ev]
                # real run
                d = os.path.join(tmp, 'r%d' % checked)
                os.mkdir(d)
                real = Jp.FileJournal(os.path.join(d, 'journal.bin'))
                rb = Bundle()
                rb.j = real
                mm = JournalModel.__new__(JournalModel)
                mm.J = Jp
                n = 0
                for e in h2:
                    if e[0] == 'reopen':
                        rb.j._destroy()
                        rb.j = Jp.FileJournal(os.path.join(d, 'journal.bin'))
                    else:
                        rb.n = n
                        JournalModel._do(mm, rb, e)
                    if e[0] == 'add':
                        n += 1
                rb.j.flush()
                real_bytes = open(os.path.join(d, 'journal.bin'), 'rb').read()
                meta_p = os.path.join(d, 'journal.bin.meta')
                real_meta = open(meta_p, 'rb').read() if os.path.exists(meta_p) else None
                sim_bytes = bytes(nb.vfs.files[PATH])
                sim_meta = nb.vfs.files.get(PATH + '.meta')
                sim_meta = bytes(sim_meta) if sim_meta is not None else None
                rb.j._destroy()
                shutil.rmtree(d)
                checked += 1
                res.transitions += 1
                if real_bytes != sim_bytes or real_meta != sim_meta:
                    res.extra['harness_error'] = 'VFS conformance: %r: real file %d bytes, simulated %d bytes, meta equal=%s' % (
                        h2, len(real_bytes), len(sim_bytes), real_meta == sim_meta)
                    return res
                frontier.append((h2, nb))
    finally:
        shutil.rmtree(tmp, ignore_errors=True)
    res.states = checked
    res.extra['vfs_conformance_sequences'] = checked
    res.samples = []
    return res


def main(tier, seed, job_filter=None):
    rep = core.Report('C08', tier, seed, 'explicit-state BFS over journal operation sequences with kill injection '
                      'before every OS-visible mutation; list reference model',
                      assumptions=['process-kill crash model: mutations handed to the OS survive, Python-level file buffers do not; no torn single stores, no reordering (the property speaks of kills, not power loss)',
                                   'simulated mmap/open/rename validated against real files on all sequences up to depth 3 (quick) / 4 (thorough)'])
    d = 4 if tier == 'quick' else 6
    if tier == 'quick':
        jobs = [(job, dict(name='journal:depth%d:crash' % d, depth=d, crash=True)),
                (job, dict(name='journal:depth%d:nocrash' % (d + 1), depth=d + 1, crash=False))]
    else:
        # split by the first operation so that all cores are used
        m0 = JournalModel(1, crash=False)
        firsts = m0.events(m0.initial())
        jobs = [(job, dict(name='journal:depth%d:crash:first=%s' % (d, '-'.join(map(str, f))), depth=d, crash=True, first=list(f))) for f in firsts]
        jobs += [(job, dict(name='journal:depth%d:nocrash:first=%s' % (d + 1, '-'.join(map(str, f))), depth=d + 1, crash=False, first=list(f)))
                 for f in firsts]
    jobs += [
            (conformance_job, dict(name='vfs-conformance:depth%d' % (2 if tier == 'quick' else 3), depth=2 if tier == 'quick' else 3))]
    if job_filter:
        jobs = [j for j in jobs if job_filter in j[1]['name']]
    rep.replay_fn = replay_trace
    rep.add(core.run_jobs(jobs))
    rep.extra['crash_points'] = sum(r.extra.get('crash_points', 0) for r in rep.results)
    return rep.finish()


def replay_trace(jobname, trace):
    parts = jobname.split(':')
    first = None
    if parts[-1].startswith('first='):
        f = parts[-1][len('first='):].split('-')
        first = [f[0]] + [int(x) for x in f[1:]]
        parts = parts[:-1]
    m = JournalModel(99, crash=(parts[-1] == 'crash'), first=first)
    msg, _ = core.replay(m, [tuple(e) for e in trace])
    return msg


def replay_file(path):
    import json
    d = json.load(open(path))
    msg = replay_trace(d['job'], d['trace'])
    print('replay:', msg)
    if msg:
        print('VIOLATION property=C08 replay=%s' % path)
        return 1
    return 0
