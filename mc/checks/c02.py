"""C02 - see DESIGN.md section 4/C02. Explicit-state BFS over real SyncObj nodes (engine E1)."""
from mc import jobs
from mc.checks import raftjobs

PROP = 'C02'
TECH = 'explicit-state BFS over worlds of real SyncObj nodes (simulated transport/clock), ghost-state monitor evaluated on every transition and state'
ASSUME = ['per-link FIFO network model (SimTransport); reconnect only after both endpoints noticed the drop',
          'random election timeout fixed to its minimum; the explorer decides when a timeout fires (event E)',
          'zero-time ticks Z, heartbeat-sized ticks H on leaders, election-sized ticks E on non-leaders',
          'bounds: per-job budgets in coverage.jobs[].budget; seeds are scripted prefixes in the same alphabet']


def specs(tier):
    from mc.jobs import J
    js = list(raftjobs.common(tier))
    # "never undone afterwards": a reported SUCCESS must survive the node's own compaction going wrong (the forked
    # dump child fails or is killed) followed by a restart
    own = [J('jd-fork-steady2-childfail:H1K1Q1P1', 'steady', dict(n=2, journal='file+dump', use_fork=True), dict(H=1, K=1, Q=1, P=1), dict(k=3),
             clauses=('C01', 'C02', 'C04', 'C06'), extra_monitors=(('mc.monitors_c06', 'DurabilityMonitor', {}),))]
    for j in own:
        j['max_states'] = 250000 if tier == 'quick' else 2000000
    return js + own


def main(tier, seed, job_filter=None):
    return jobs.run_cluster_check(PROP, tier, seed, specs(tier), (PROP,), TECH, ASSUME, job_filter)


def replay_file(path):
    return jobs.replay_file_cluster(PROP, path, specs('thorough'))
