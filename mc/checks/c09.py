"""C09 - snapshots capture exactly the state at their position, in every serializer mode
(engine E1 + simulated file system + emulated fork)."""
from mc import jobs
from mc.jobs import J

PROP = 'C09'
TECH = 'explicit-state BFS over real SyncObj nodes: compaction requests at any moment relative to applies, chunked snapshot transfers interleaved with drops/reconnects/newer snapshots, serializer modes memory / file / file with emulated fork / user-supplied functions, kills at every OS-visible mutation of the dump path'
ASSUME = ['fork is emulated: the child gets a deep copy of the data argument (the copy-on-write image) and runs the real child path of Serializer.serialize at an explorer-chosen moment (event Cf); the OS giving the child a consistent image is trusted',
          'process-kill crash model as in C06/C08',
          'oracle = replay oracle of C01 (object state equals the replay of the common sequence at raftLastApplied), battery equality at equal applied index, member set = fold of the log, closing-run convergence, dump file on disk always deserializes']
CONV = ('mc.closing', 'ConvergenceMonitor', dict(prop='C09', variants=('all',), every=5))
BM = ('mc.monitors', 'BatteryMonitor', {})
MM = ('mc.monitors_c10', 'MembershipMonitor', dict(via=('api',)))
CL = ('C01', 'C02', 'C04', 'C09')


def specs(tier):
    q = tier == 'quick'
    js = [
        # in-memory snapshots, chunk sizes: 1 byte, splits in a few chunks, larger than the snapshot
        J('mem-lagsnap3-chunk1:H1R1', 'lagging_snap', dict(n=3, chunk=1), dict(H=1, R=1), dict(k=0, j=1)),
        J('mem-lagsnap3-chunk100:H2R1X1', 'lagging_snap', dict(n=3, chunk=100), dict(H=2, R=1, X=1)),
        J('mem-lagsnap3-big:H2R1S1K1', 'lagging_snap', dict(n=3), dict(H=2, R=1, S=1, K=1)),
        J('mem-steady2:H2S2K2', 'steady', dict(n=2), dict(H=2, S=2, K=2), dict(k=2)),
        # dump file, no fork
        J('file-lagsnap3-chunk100:H2R1P1', 'lagging_snap', dict(n=3, chunk=100, journal='file+dump'), dict(H=2, R=1, P=1)),
        J('file-steady2:H2S1K1P1', 'steady', dict(n=2, journal='file+dump'), dict(H=2, S=1, K=1, P=1), dict(k=2)),
        J('dumponly-steady2:H2S1K1P1', 'steady', dict(n=2, journal='dump'), dict(H=2, S=1, K=1, P=1), dict(k=2), clauses=('C01', 'C09'), extra_monitors=()),
        # dump file written by an (emulated) forked child while the parent keeps applying
        J('fork-steady2:H2S2K1', 'steady', dict(n=2, journal='file+dump', use_fork=True), dict(H=2, S=2, K=1), dict(k=2)),
        J('fork-steady2-childkill:H2S1K1Q1R1', 'steady', dict(n=2, journal='file+dump', use_fork=True), dict(H=2, S=1, K=1, Q=1), dict(k=3)),
        J('fork-lagging3-childkill:H2K1Q1R1', 'lagging', dict(n=3, journal='file+dump', use_fork=True), dict(H=2, K=1, Q=1, R=1), dict(k=2, j=2)),
        J('ver-lagsnap3:S1H2R1', 'version_snap', dict(n=3, obj='vnew'), dict(S=1, H=2, R=1), extra_monitors=(('mc.monitors_c17', 'VersionMonitor', {}),)),
        J('fork-steady2-k3-childfail:H2K1Q1P1', 'steady', dict(n=2, journal='file+dump', use_fork=True), dict(H=2, K=1, Q=1, P=1), dict(k=3)),
        J('ver-stalled-old3:K1P1H1', 'stalled_old_code', dict(n=3, obj='vmixed', journal='file+dump'), dict(K=1, P=1, H=1),
          extra_monitors=(('mc.monitors_c17', 'VersionMonitor', {}),)),
        J('fork-steady2:H1S1K1P1', 'steady', dict(n=2, journal='file+dump', use_fork=True), dict(H=1, S=1, K=1, P=1), dict(k=2)),
        J('fork-lagging3:H2R1K1S1', 'lagging', dict(n=3, journal='file+dump', use_fork=True, chunk=100), dict(H=2, R=1, K=1, S=1)),
        # the connection breaks in the middle of a multi-chunk snapshot transfer (inside the leader's send call)
        # the follower's own dump child (fork) is still running when a newer snapshot arrives from the leader
        J('fork-lagsnap3-ownchild:H1R1K1P1', 'lagging_snap', dict(n=3, journal='file+dump', use_fork=True, kill_only=('n3:1',)),
          dict(H=1, R=1, K=1, P=1), extra_monitors=(('mc.monitors_c06', 'DurabilityMonitor', {}),)),
        # the receiver's own compaction fires while a multi-piece snapshot is coming in (two writers, one directory)
        J('file-lagsnap3-chunk64-owncompact:H1R1K1P1', 'lagging_snap', dict(n=3, journal='file+dump', chunk=64, kill_only=('n3:1',), write_buffer=100),
          dict(H=1, R=1, K=1, P=1)),
        J('file-lagsnap3-chunk64-sendfault:H2R2X1', 'lagging_snap', dict(n=3, journal='file+dump', chunk=64, send_faults=True), dict(H=2, R=2, X=1)),
        J('mem-lagsnap3-chunk64-sendfault:H2R2X1', 'lagging_snap', dict(n=3, chunk=64, send_faults=True), dict(H=2, R=2, X=1)),
        # a dump that cannot be written once (no fork: the failure happens inside the tick), then everything goes on
        J('custom-lagsnap3-dumpfail:H2R1Q1S1', 'lagging_snap', dict(n=3, journal='dump', serializer='custom', chunk=100), dict(H=2, R=1, Q=1, S=1)),
        J('file-lagsnap3-dumpfail:H2R1Q1S1', 'lagging_snap', dict(n=3, journal='file+dump'), dict(H=2, R=1, Q=1, S=1)),
        # user-supplied serializer / deserializer
        J('custom-lagsnap3:H2R1S1', 'lagging_snap', dict(n=3, journal='dump', serializer='custom', chunk=100), dict(H=2, R=1, S=1)),
        J('custom-steady2:H2S1K1P1', 'steady', dict(n=2, journal='file+dump', serializer='custom'), dict(H=2, S=1, K=1, P=1), dict(k=2)),
        # consumers in the snapshot
        J('bat-lagsnap3:H2R1S1', 'battery_lagsnap', dict(n=3, consumers='queue+dict', chunk=100), dict(H=2, R=1, S=1), dict(ops=(0, 2, 1)),
          extra_monitors=(BM, CONV)),
        # member set in the snapshot
        J('dyn-lagsnap3:H2R1M1', 'lagging_snap', dict(n=3, dyn=True), dict(H=2, R=1, M=1), extra_monitors=(MM,), clauses=('C01', 'C02', 'C03', 'C04')),
    ]
    if not q:
        js += [
            J('mem-lagging3-newer-snapshot:H3R1S1K1', 'lagging_snap', dict(n=3, chunk=100), dict(H=3, R=1, S=1, K=1)),
            J('mem-steady3:H2S2K2', 'steady', dict(n=3), dict(H=2, S=2, K=2), dict(k=2)),
            J('mem-deposedsnap3-chunk100:H3R2E1', 'deposed_snap', dict(n=3, chunk=100), dict(H=3, R=2, E=1)),
            J('file-steady3:H2S2K2P1', 'steady', dict(n=3, journal='file+dump'), dict(H=2, S=2, K=2, P=1), dict(k=2)),
            J('fork-steady3:H2S2K2P1', 'steady', dict(n=3, journal='file+dump', use_fork=True), dict(H=2, S=2, K=2, P=1), dict(k=2)),
            J('custom-steady3:H2S2K1P1', 'steady', dict(n=3, journal='file+dump', serializer='custom'), dict(H=2, S=2, K=1, P=1), dict(k=2)),
        ]
    for j in js:
        j.setdefault('extra_monitors', (CONV,))
        j['max_states'] = 250000 if q else 2500000
    return js


def main(tier, seed, job_filter=None):
    return jobs.run_cluster_check(PROP, tier, seed, specs(tier), CL, TECH, ASSUME, job_filter)


def replay_file(path):
    return jobs.replay_file_cluster(PROP, path, [dict({'clauses': CL}, **s) for s in specs('thorough')])
