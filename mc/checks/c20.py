"""C20 - a leader cut off from the majority steps down in bounded time (engine E1 with
fallback-sized ticks F)."""
from mc import jobs
from mc.jobs import J

PROP = 'C20'
TECH = 'explicit-state BFS over real SyncObj nodes with fallback-sized time steps; ghost silence clocks per (leader, peer); oracle after every tick and on every callback'
ASSUME = ['a node can only step down when it ticks: the oracle is evaluated after each tick of a leader',
          '"heard from" = any message delivered from that peer (the implementation counts only acknowledgements, so it can only be more eager)',
          'cut off = fewer than a majority of intact physical connections (noticed or black-holed)']
FM = ('mc.monitors_c20', 'FallbackMonitor', {})


def specs(tier):
    q = tier == 'quick'
    js = []
    for fb, tag in ((0.015, 'fb1.5p'), (0.035, 'fb3.5p'), (30.0, 'fb30s')):
        exact = fb < 1.0
        js += [
            J('steady2-%s:F1H2X2S1' % tag, 'steady', dict(n=2, fallback=fb, exact_time=exact), dict(F=1, H=2, X=2, S=1), dict(k=0)),
            J('steady3-%s:F1H1X2' % tag, 'steady', dict(n=3, fallback=fb, exact_time=exact), dict(F=1, H=(1 if fb < 1 else 0), X=2), dict(k=0)),
        ]
        if not q:
            js += [
                J('steady3-%s:F2H3X3S1R1' % tag, 'steady', dict(n=3, fallback=fb, exact_time=exact), dict(F=2, H=3, X=3, S=1, R=1), dict(k=0)),
                J('steady4-%s:F1H2X3' % tag, 'steady', dict(n=4, fallback=fb, exact_time=exact), dict(F=1, H=2, X=3), dict(k=0)),
                J('steady5-%s:F1H1X4' % tag, 'steady', dict(n=5, fallback=fb, exact_time=exact), dict(F=1, H=1, X=4), dict(k=0)),
            ]
    # ticks finer than the heartbeat period, with and without client traffic in non-batch mode
    js += [J('steady3-fb1.5p:G4', 'steady', dict(n=3, fallback=0.015, exact_time=True), dict(G=4), dict(k=0)),
           J('steady2-nobatch-fb1.5p:G4S2', 'steady', dict(n=2, fallback=0.015, exact_time=True, batch=False), dict(G=4, S=2), dict(k=0)),
           J('steady2-nobatch-fb3.5p:G7S2', 'steady', dict(n=2, fallback=0.035, exact_time=True, batch=False), dict(G=7, S=2), dict(k=0))]
    # membership requests (also refused ones: add of a current member) reaching a leader that is being cut off; a removed
    # member stays in the transport-level connected set
    MM = ('mc.monitors_c10', 'MembershipMonitor', dict(via=('api',), add_existing=True))
    js += [J('m-steady2-fb1.5p:H2M1X1', 'steady', dict(n=2, dyn=True, fallback=0.015, exact_time=True), dict(H=2, M=1, X=1), dict(k=0),
             extra_monitors=(FM, MM), clauses=('C03', 'C04', 'C10', 'C20')),
           J('m-steady3-fb1.5p:H1M1X2', 'steady', dict(n=3, dyn=True, fallback=0.015, exact_time=True), dict(H=1, M=1, X=2), dict(k=0),
             extra_monitors=(FM, MM), clauses=('C03', 'C04', 'C10', 'C20'))]
    js += [J('latevote5-fb3.5p:H4', 'late_vote5', dict(n=5, fallback=0.035, exact_time=True), dict(H=4), dict())]
    js += [J('steady4-fb3.5p:F1X2', 'steady', dict(n=4, fallback=0.035, exact_time=True), dict(F=1, X=2), dict(k=0)),
           J('obs1-steady2-fb1.5p:H3X2', 'steady', dict(n=2, observers=1, fallback=0.015, exact_time=True), dict(H=3, X=2), dict(k=0)),
           J('split4-fb3.5p:F1E2', 'split', dict(n=4, fallback=0.035, exact_time=True), dict(F=1, E=2), dict(k=0)),
           J('obs1-steady2:F1H1X2', 'steady', dict(n=2, observers=1, fallback=0.035, exact_time=True), dict(F=1, H=1, X=2), dict(k=0))]
    for j in js:
        j['max_states'] = 300000 if q else 2000000
    return js


def main(tier, seed, job_filter=None):
    return jobs.run_cluster_check(PROP, tier, seed, specs(tier), ('C20',), TECH, ASSUME, job_filter, extra_monitors=(FM,))


def replay_file(path):
    return jobs.replay_file_cluster(PROP, path, [dict({'clauses': ('C20',), 'extra_monitors': (FM,)}, **s) for s in specs('thorough')])
