"""C19 - thread-safe calls: each applied once, sync returns its own result (engine E3)."""
import functools
import time

from mc import core, threads

PROP = 'C19'
TECH = 'stateless exploration (CHESS style) of real OS threads under a baton scheduler: caller threads x the real auto-tick thread of a real SyncObj, scheduling points at every traced source line of the hand-over code and at every lock/event/sleep/poll operation, depth-first over choice sequences with iterative pre-emption bounding; plus explicit-state BFS over worlds of 2-3 real SyncObj nodes (engine E1) for the cluster-wide half: local and forwarded calls sharing the command queue of the leader, queue limits 1 and 2, every callback fires exactly once'
ASSUME = ['cluster jobs: sequential nodes on the simulated transport, fault-free network, budgets in coverage.jobs[].budget; QUEUE_FULL is an accepted answer for the closing-run submissions when the queue limit is below 100',
          'thread jobs: one-node cluster (majority of one) so that the protocol part is short and deterministic; virtual clock',
          'line granularity, CPython GIL memory model',
          'deviation bound 1 (quick, plus one bound-2 job capped at 9000 executions) / 2 (thorough): a deviation is a pre-emption of a runnable thread or any non-default pick at a yield/block/exit point; the default schedule is round robin at yields, so every explored schedule is fair',
          'quick tier traces the hand-over functions (enqueue, queue, dequeue, apply loop, decorator, AsyncResult); thorough traces every line of syncobj.py and fast_queue.py']

HANDOVER = {'_applyCommand', 'put_nowait', 'get_nowait', '_checkCommandsToApply', '__applyLogEntries', 'newFunc', 'onResult',
            '_getFuncName', '__callErrCallback', '__doApplyCommand', 'add', '__init__', 'wait', 'set'}


def make_filter(mode):
    def f(filename, name):
        if '/pysyncobj/' not in filename:
            return False
        base = filename.rsplit('/', 1)[-1]
        if base not in ('syncobj.py', 'fast_queue.py'):
            return False
        if mode == 'all':
            return True
        return name in HANDOVER or name.endswith('applyLogEntries') or name.endswith('doApplyCommand') or name.endswith('callErrCallback')
    return f


def run_execution(prefix, plan, qsize, mode, horizon=4):
    """plan: tuple per caller of tuple of call kinds ('sync' | 'cb' | 'cbt' (callback + timeout=) | 'async')."""
    threads.install()
    from pysyncobj import SyncObj, SyncObjConf, replicated, SyncObjException
    from mc.cluster import SimTransport

    s = threads.Sched(prefix, make_filter(mode), horizon_ticks=horizon)
    threads.SCHED[0] = s
    s.results = []
    s.ctrl = threads._real.Semaphore(0)

    class Cnt(SyncObj):
        def __init__(self):
            conf = SyncObjConf(autoTick=True, autoTickPeriod=0.05, commandsQueueSize=qsize, appendEntriesUseBatch=True)
            SyncObj.__init__(self, 'n1:1', [], conf, transport=SimTransport('n1:1'))
            self.items = []

        @replicated
        def add(self, tag):
            self.items.append(tag)
            return len(self.items)

    obj = Cnt()
    tick = s.threads[0]

    def ready():
        return obj._isLeader() and obj.raftLastApplied >= 2
    s.ready_check = ready
    orig_poll = threads.SPoller.poll

    # phase 1: only the tick thread, until the node leads and has applied its no-op
    s.current = tick
    tick.sem.release()
    s.ctrl.acquire()
    if s.over:
        return s, obj
    # phase 2: callers
    def caller(ci, kinds):
        for k, kind in enumerate(kinds):
            tag = (ci, k)
            if kind == 'sync':
                try:
                    r = obj.add(tag, sync=True)
                    s.results.append((tag, 'ret', r))
                except SyncObjException as e:
                    s.results.append((tag, 'exc', e.errorCode))
            elif kind == 'cb':
                obj.add(tag, callback=functools.partial(_cb, s, tag))
                s.results.append((tag, 'submitted', None))
            elif kind == 'cbt':
                # asynchronous call that also passes the reserved 'timeout' parameter
                obj.add(tag, callback=functools.partial(_cb, s, tag), timeout=5)
                s.results.append((tag, 'submitted', None))
            else:
                obj.add(tag)
                s.results.append((tag, 'submitted', None))
    for ci, kinds in enumerate(plan):
        t = threads.SThread(target=caller, args=(ci, kinds), name='caller%d' % ci)
        t.start()
    s.recording = True
    tick.sem.release()
    if not s.done_sem.acquire(timeout=60):
        s.errors.append(('controller', 'execution did not finish within 60 s of real time'))
        s.finish()
    # let the threads unwind
    for t in s.threads:
        if t.thread is not None:
            t.thread.join(timeout=2)
    return s, obj


def _cb(s, tag, res, err):
    s.results.append((tag, 'cb', (res, err)))


def judge(s, obj, plan):
    """Oracle for one finished execution. Returns violation text or None."""
    if s.errors:
        return 'exception in thread %s: %s' % (s.errors[0][0], s.errors[0][1].strip().splitlines()[-1])
    if s.deadlock:
        return 'deadlock: ' + s.deadlock
    if s.livelock:
        return 'no progress: a caller never finished (sync call never returned) within the horizon; results so far %r' % (s.results,)
    items = list(obj.items)
    if len(set(items)) != len(items):
        return 'a call was applied twice: %r' % (items,)
    res = {}
    for tag, kind, val in s.results:
        res.setdefault(tag, []).append((kind, val))
    for ci, kinds in enumerate(plan):
        for k, kind in enumerate(kinds):
            tag = (ci, k)
            r = res.get(tag, [])
            if kind == 'sync':
                rr = [x for x in r if x[0] in ('ret', 'exc')]
                if len(rr) != 1:
                    return 'sync call %r finished %d times: %r' % (tag, len(rr), r)
                if rr[0][0] == 'ret':
                    if tag not in items:
                        return 'sync call %r returned %r but was never applied (applied: %r)' % (tag, rr[0][1], items)
                    if rr[0][1] != items.index(tag) + 1:
                        return 'sync call %r returned %r, the result of its own command is %r (applied order %r)' % (
                            tag, rr[0][1], items.index(tag) + 1, items)
                else:
                    if rr[0][1] not in (1, 2, 3, 4, 5, 6, 'Timeout'):
                        return 'sync call %r raised SyncObjException(%r): neither its result nor a failure reason nor Timeout (applied: %r)' % (
                            tag, rr[0][1], tag in items)
                    if rr[0][1] in (1, 2, 3, 4, 6) and tag in items:
                        return 'sync call %r raised error %r but was applied' % (tag, rr[0][1])
            elif kind in ('cb', 'cbt'):
                cbs = [x for x in r if x[0] == 'cb']
                if len(cbs) != 1:
                    return 'callback of call %r fired %d times (applied: %r)' % (tag, len(cbs), items)
                resv, err = cbs[0][1]
                if err == 0:
                    if tag not in items or resv != items.index(tag) + 1:
                        return 'callback of %r reports SUCCESS result %r, applied order %r' % (tag, resv, items)
                elif tag in items and err in (1, 2, 3, 4, 6):
                    return 'callback of %r reports error %r but the call was applied' % (tag, err)
            else:
                if items.count(tag) > 1:
                    return 'async call %r applied %d times' % (tag, items.count(tag))
    return None


def job(name, plan, qsize, bound, mode, max_executions=None):
    t0 = time.time()
    res = core.SearchResult(name)
    outcomes = set()
    npoints = [0]

    def run_once(prefix):
        s, obj = run_execution(prefix, plan, qsize, mode)
        s.obj = obj
        return s

    def on_exec(x):
        npoints[0] += len(x.points)
        v = judge(x, x.obj, plan)
        outcomes.add((tuple(x.obj.items), tuple(sorted((t, k, repr(val)) for t, k, val in x.results))))
        if v:
            # confirm by replaying the recorded schedule twice
            again = [judge(*_rerun(x.choices, plan, qsize, mode)) for _ in range(2)]
            if again[0] == v and again[1] == v:
                res.violations.append(dict(msg='C19 ' + v, sig=None, trace=[['plan', [list(p) for p in plan], qsize, mode]] + [list(x.choices)]))
                return True
            res.extra['harness_error'] = 'violation did not reproduce: %r vs %r' % (v, again)
            return True
        return False
    try:
        n, capped = threads.explore(run_once, bound, max_executions=max_executions, on_execution=on_exec)
    except core.HarnessError as e:
        res.extra['harness_error'] = repr(e)
        n, capped = 0, False
    res.states = n
    res.transitions = npoints[0]
    res.exhaustive = not capped
    if capped:
        res.cap_hit = 'max_executions=%d' % max_executions
    res.outcomes = outcomes
    res.samples = [[['plan', [list(p) for p in plan]], ['qsize', qsize], ['bound', bound], ['mode', mode]]]
    res.extra.update(dict(executions=n, scheduling_points=npoints[0], preemption_bound=bound, plan=[list(p) for p in plan], qsize=qsize,
                          trace_mode=mode, distinct_observations=len(outcomes)))
    res.wall_s = time.time() - t0
    return res


def _rerun(choices, plan, qsize, mode):
    s, obj = run_execution(list(choices), plan, qsize, mode)
    return s, obj, plan


def jobs_for(tier):
    q = tier == 'quick'
    b = 1 if q else 2
    mode = 'handover'
    js = [
        ('2x1:sync+sync:q100', (('sync',), ('sync',)), 100, b, mode),
        ('2x1:sync+cb:q100', (('sync',), ('cb',)), 100, b, mode),
        ('2x2:sync,async+cb,sync:q100', (('sync', 'async'), ('cb', 'sync')), 100, b, mode),
        ('2x1:sync+sync:q0', (('sync',), ('sync',)), 0, b, mode),
        ('2x1:cbt+sync:q100', (('cbt',), ('sync',)), 100, b, mode),
        ('3x1:sync+cb+async:q1', (('sync',), ('cb',), ('async',)), 1, b, mode),
        ('2x2:cb,cb+cb,cb:q1', (('cb', 'cb'), ('cb', 'cb')), 1, b, mode),
        ('2x1:sync+sync:q100:all-lines', (('sync',), ('sync',)), 100, 1, 'all'),
    ]
    if q:
        js.append(('2x1:sync+cb:q0:bound2', (('sync',), ('cb',)), 0, 2, mode))
    else:
        js += [('3x2:mixed:q1', (('sync', 'cb'), ('cb', 'sync'), ('async', 'sync')), 1, 2, mode)]
    cap = 9000 if q else 1500000
    return [(n, dict(plan=p, qsize=qs, bound=bb, mode=m, max_executions=cap)) for n, p, qs, bb, m in js]


MONS = (('mc.monitors', 'ExceptionMonitor', dict(prop='C19')),
        ('mc.closing', 'AllCallbacksMonitor', dict(prop='C19', variants=('all',))))
CL = ('C02', 'C01')


def cluster_specs(tier):
    """The cluster-wide half of the statement (engine E1, sequential nodes): what the tick thread does with the
    queue it shares with the callers when the same queue also receives the calls forwarded by another node -
    local and forwarded calls drained in one tick, and a queue limit of 1 hit by local and by forwarded calls.
    Every callback must fire exactly once (closing run from every state), applied-once and result oracles of C02."""
    from mc.jobs import J
    q = tier == 'quick'
    js = [
        J('cluster-steady2:S3H1', 'steady', dict(n=2), dict(S=3, H=1), dict(k=0)),
        J('cluster-steady2-q1:S3H1', 'steady', dict(n=2, qsize=1), dict(S=3, H=1), dict(k=0)),
        J('cluster-steady3-q1:S2H1', 'steady', dict(n=3, qsize=1), dict(S=2, H=1), dict(k=0)),
        J('cluster-steady2-q2:S4H1', 'steady', dict(n=2, qsize=2), dict(S=4, H=1), dict(k=0)),
    ]
    if not q:
        js += [J('cluster-steady3-q1:S3H1', 'steady', dict(n=3, qsize=1), dict(S=3, H=1), dict(k=0)),
               J('cluster-steady3-q2:S5H2', 'steady', dict(n=3, qsize=2), dict(S=5, H=2), dict(k=0)),
               J('cluster-steady2+1-q1:S4H2', 'steady', dict(n=2, observers=1, qsize=1), dict(S=4, H=2), dict(k=0))]
    for j in js:
        j['max_states'] = 150000 if q else 1500000
    return js


def thread_replay(name, trace):
    head, choices = trace[0], trace[1]
    plan = tuple(tuple(p) for p in head[1])
    s, obj = run_execution(list(choices), plan, head[2], head[3])
    v = judge(s, obj, plan)
    return ('C19 ' + v) if v else None


def main(tier, seed, job_filter=None):
    from mc import jobs as mjobs
    js = [(job, dict(name=n, **kw)) for n, kw in jobs_for(tier) if not job_filter or job_filter in n]
    thr = core.run_jobs(js) if js else []
    return mjobs.run_cluster_check(PROP, tier, seed, cluster_specs(tier), CL, TECH, ASSUME, job_filter, extra_monitors=MONS,
                                   extra_results=thr, extra_replay=thread_replay)


def replay_file(path):
    import json
    d = json.load(open(path))
    if d['job'].startswith('cluster-'):
        from mc import jobs as mjobs
        return mjobs.replay_file_cluster(PROP, path, [dict(x, clauses=CL, extra_monitors=MONS) for x in cluster_specs('thorough') + cluster_specs('quick')])
    head, choices = d['trace'][0], d['trace'][1]
    plan = tuple(tuple(p) for p in head[1])
    s, obj = run_execution(list(choices), plan, head[2], head[3])
    v = judge(s, obj, plan)
    print('replay:', v)
    if v:
        print('VIOLATION property=%s replay=%s' % (PROP, path))
        return 1
    return 0
