"""C12 - a replicated method that raises does not stall or split the cluster (engine E1)."""
from mc import jobs
from mc.jobs import J

PROP = 'C12'
TECH = 'explicit-state BFS over real SyncObj nodes; alphabet = ok / raising submissions on any node; no exception may escape a tick or handler; closing run from every state: all callbacks fired once, all replicas past the raising command and equal'
ASSUME = ['raising method = test methods raising ValueError / KeyError (no-argument call) / an application-defined Exception subclass / OSError deterministically on every replica',
          'fault-free network in these jobs, so every callback must fire']
MONS = (('mc.monitors', 'ExceptionMonitor', dict(prop='C12')),
        ('mc.closing', 'AllCallbacksMonitor', dict(prop='C12', variants=('all',))))


JM = (MONS[0], ('mc.monitors_c06', 'DurabilityMonitor', {}))


def specs(tier):
    q = tier == 'quick'
    js = [
        J('single1:S4', 'steady', dict(n=1, methods=('boom', 'boom0')), dict(S=4, H=1), dict(k=0)),
        J('single1-classes:S3', 'steady', dict(n=1, methods=('boomx', 'boomo')), dict(S=3, H=1), dict(k=0)),
        J('steady2-twoargs:S2H1', 'steady', dict(n=2, methods=('boom2',)), dict(S=2, H=1), dict(k=0)),
        J('lagsnap3-boom:S1H2R1', 'lagging_snap', dict(n=3, methods=('boom',)), dict(S=1, H=2, R=1)),
        J('steady2-classes:S2H1', 'steady', dict(n=2, methods=('boomx', 'boomo')), dict(S=2, H=1), dict(k=0)),
        J('steady2:S2H1', 'steady', dict(n=2, methods=('boom', 'boom0')), dict(S=2, H=1), dict(k=0)),
        J('steady2-boom:S3H1', 'steady', dict(n=2, methods=('boom',)), dict(S=3, H=1), dict(k=0)),
        J('steady3:S1H1', 'steady', dict(n=3, methods=('boom', 'boom0')), dict(S=1, H=1), dict(k=0)),
        J('steady3-boom:S2H1', 'steady', dict(n=3, methods=('boom',)), dict(S=2, H=1), dict(k=0)),
        J('steady2+1obs:S2H1', 'steady', dict(n=2, observers=1, methods=('boom',)), dict(S=2, H=1), dict(k=0)),
        J('steady2-boom-reelect:E1H1S1', 'steady', dict(n=2, methods=('boom',)), dict(E=1, H=1, S=1), dict(k=0)),
        J('forwarded3-boom:E1H1', 'forwarded', dict(n=3, methods=('boom',)), dict(E=1, H=1), dict(meth='boom')),
        J('forwarded-acked3-boom:S1H1', 'forwarded_acked', dict(n=3, methods=('boom',)), dict(S=1, H=1), dict(meth='boom')),
        J('steady2-nobatch:S2H1', 'steady', dict(n=2, methods=('boom', 'boom0'), batch=False), dict(S=2, H=1), dict(k=0)),
        # restart that replays the raising command from the journal, with and without a dump file in front of it
        # (kills are faults: the callbacks of a killed node are gone, so only the exception and replay oracles here)
        J('j-steady2-boom:S2H1P1', 'steady', dict(n=2, methods=('boom',), journal='file'), dict(S=2, H=1, P=1), dict(k=1),
          clauses=('C12', 'C02', 'C01', 'C04', 'C06'), extra_monitors=JM),
        J('jd-steady2-boom:S1H1K1P1', 'steady', dict(n=2, methods=('boom',), journal='file+dump'), dict(S=1, H=1, K=1, P=1), dict(k=2),
          clauses=('C12', 'C02', 'C01', 'C04', 'C06'), extra_monitors=JM),
    ]
    if not q:
        js += [J('steady3-boom-reelect:E1H1S1', 'steady', dict(n=3, methods=('boom',)), dict(E=1, H=1, S=1), dict(k=0)),
               J('steady2:S4H2', 'steady', dict(n=2, methods=('boom', 'boom0')), dict(S=4, H=2), dict(k=0)),
               J('steady3:S3H2', 'steady', dict(n=3, methods=('boom', 'boom0')), dict(S=3, H=2), dict(k=0))]
    for j in js:
        j['max_states'] = 100000 if q else 1000000
    return js


def main(tier, seed, job_filter=None):
    return jobs.run_cluster_check(PROP, tier, seed, specs(tier), ('C12', 'C02', 'C01'), TECH, ASSUME, job_filter, extra_monitors=MONS)


def replay_file(path):
    return jobs.replay_file_cluster(PROP, path, [dict(s, clauses=('C12', 'C02', 'C01'), extra_monitors=MONS) for s in specs('thorough')])
