"""C16 - replicated locks are mutually exclusive and always eventually obtainable.

Real `_ReplLockManagerImpl` replicas and real `ReplLockManager` client wrappers (one per node)
over an abstract totally ordered log: `_applyCommand` of a stub appends to one global sequence
(or, as a budgeted fault, fails the callback); every replica applies the sequence at its own
pace; callbacks fire on the submitting replica. Assume/guarantee: C01/C02 establish the common
sequence and the callback contract, C16 quantifies over what they leave open (commit delays,
replica lag, failures, time). One common virtual clock. The prolongation thread is not run as
a thread: event `prolong(c)` executes exactly one iteration of the real `_autoAcquireThread`
body.

A state is the event history that reaches it; worlds are rebuilt from scratch for every
transition (live objects hold closures that do not copy)."""
import pickle

from mc import core, seams

PROP = 'C16'
TECH = 'explicit-state BFS over real SyncObj clusters carrying the replicated lock table (replica equality, also after a snapshot install) + explicit-state BFS (state = event history, world rebuilt per transition, merged on a canonical key) over real lock manager replicas and client wrappers on an abstract ordered log, with time steps, replica lag, submission failures and prolongation iterations as events'
ASSUME = ['assume/guarantee: one common command sequence and the callback contract are provided by C01/C02 (abstract ordered log)',
          'client clocks agree (one common virtual clock), as the property states',
          'sync tryAcquire is driven through its callback form (a blocked OS thread is not modelled here)']

T = 8.0       # autoUnlockTime
EPS = 0.01
DTS = (EPS, T / 4 + EPS, T / 2 + EPS, T + EPS)


class Park(BaseException):
    pass


class World(object):
    pass


class FakeTimeMod(object):
    """batteries.time: common clock; sleep returns once per prolong event, then parks."""

    def __init__(self):
        self.now = 1000.0
        self.sleeps_left = 0

    def time(self):
        return self.now

    def sleep(self, t):
        if self.sleeps_left <= 0:
            raise Park()
        self.sleeps_left -= 1


class FakeThreadMod(object):
    class Event(object):
        def set(self):
            pass

        def is_set(self):
            return True

        def wait(self, t=None):
            return True

    class _Cur(object):
        @staticmethod
        def is_alive():
            return True

    @staticmethod
    def current_thread():
        return FakeThreadMod._Cur

    class Thread(object):
        def __init__(self, target=None, args=()):
            pass

        def start(self):
            pass


class StubSyncObj(object):
    """What the replicated decorator and the prolongation loop need from a SyncObj."""

    def __init__(self, world, rid, impl):
        self.world = world
        self.rid = rid
        self.impl = impl
        names = sorted(m for m in dir(impl) if getattr(getattr(impl, m), 'replicated', False) and m != getattr(getattr(impl, m), 'origName'))
        self.names = names
        self._methodToID = {(id(impl), n): i for i, n in enumerate(names)}

    def _getFuncName(self, key):
        return key[1] + '_v0'

    def _getLeader(self):
        return 'leader'

    def _applyCommand(self, command, callback, commandType=None):
        cmd = pickle.loads(command)
        if not isinstance(cmd, tuple):
            cmd = (cmd, (), {})
        elif len(cmd) == 2:
            cmd = (cmd[0], cmd[1], {})
        self.world.log.append(dict(origin=self.rid, name=self.names[cmd[0]], args=tuple(cmd[1]), kwargs=dict(cmd[2]),
                                   callback=callback, failed=False))


class LockModel(object):
    def __init__(self, clients=2, locks=('L',), depth=8, faults=1, prolongs=2, timesteps=3, prefix=(), dts=None, releases=True):
        self.dts = tuple(dts) if dts else DTS      # time steps offered after the prefix
        self.releases = releases                    # offer release events
        self.nc = clients
        self.locks = locks
        self.depth = depth
        self.faults = faults
        self.prolongs = prolongs
        self.timesteps = timesteps
        self.prefix = tuple(tuple(e) for e in prefix)
        self.builds = 0
        self._cache = None

    # -- world construction by replay
    def cached(self, hist):
        if self._cache is not None and self._cache[0] == hist:
            return self._cache[1]
        w = self.build(hist)
        self._cache = (hist, w)
        return w

    def build(self, hist):
        import pysyncobj.batteries as B
        self.builds += 1
        w = World()
        w.time = FakeTimeMod()
        B.time = w.time
        B.threading = FakeThreadMod
        w.log = []
        w.applied = [0] * self.nc
        w.results = []       # (client, op, lock, result, err, time)
        w.mgrs = []
        w.stubs = []
        w.violation = None
        for c in range(self.nc):
            m = B.ReplLockManager(T, selfID='c%d' % c)
            impl = m._consumer()
            stub = StubSyncObj(w, c, impl)
            impl._syncObj = stub
            w.mgrs.append(m)
            w.stubs.append(stub)
        w.nfault = 0
        w.nprolong = 0
        w.ntime = 0
        for ev in hist:
            self.step(w, ev)
        return w

    def step(self, w, ev):
        import pysyncobj.batteries as B
        B.time = w.time
        B.threading = FakeThreadMod
        k = ev[0]
        if k == 'acq':
            c, lock = ev[1], ev[2]
            w.mgrs[c].tryAcquire(lock, callback=self._cb(w, c, 'acq', lock), sync=False)
        elif k == 'rel':
            c, lock = ev[1], ev[2]
            w.mgrs[c].release(lock, callback=self._cb(w, c, 'rel', lock))
        elif k == 'prolong':
            w.nprolong += 1
            m = w.mgrs[ev[1]]
            w.time.sleeps_left = 1
            try:
                type(m)._autoAcquireThread(m)
            except Park:
                pass
        elif k == 'apply':
            r = ev[1]
            e = w.log[w.applied[r]]
            w.applied[r] += 1
            if not e['failed']:
                impl = w.stubs[r].impl
                before = self.holders(w, r)
                res = getattr(impl, e['name'])(*e['args'], _doApply=True, **e['kwargs'])
                if e['name'].startswith('release') and e['args'][1] not in [h for h in before.get(e['args'][0], ())]:
                    if self.holders(w, r) != before:
                        w.violation = 'C16 release of lock %r by %r, who does not hold it, changed the lock table on replica %d: %r -> %r' % (
                            e['args'][0], e['args'][1], r, before, self.holders(w, r))
                if e['origin'] == r and e['callback'] is not None:
                    e['callback'](res, 0)
        elif k == 'fail':
            # the submission is never committed: its callback fires with an error (LEADER_CHANGED)
            w.nfault += 1
            e = w.log[ev[1]]
            e['failed'] = True
            if e['callback'] is not None:
                e['callback'](None, 5)
        elif k == 'time':
            w.ntime += 1
            w.time.now += ev[1]
        else:
            raise core.HarnessError(ev)

    def _cb(self, w, c, op, lock):
        def cb(res, err):
            w.results.append((c, op, lock, res, err, w.time.now))
        return cb

    def holders(self, w, r):
        impl = w.stubs[r].impl
        for k, v in impl.__dict__.items():
            if k.endswith('__locks'):
                return {lk: (v[lk][0],) for lk in v}
        return {}

    # -- Model interface (state = history tuple)
    def initial(self):
        return self.prefix

    def key_of_world(self, w):
        impls = []
        for s in w.stubs:
            d = {k.split('__')[-1]: v for k, v in s.impl.__dict__.items() if k != '_syncObj' and not k.endswith('__properies')}
            locks = tuple(sorted((lk, v[0], round(v[1] - w.time.now, 6)) for lk, v in d.get('locks', {}).items()))
            impls.append(locks)
        mg = []
        for m in w.mgrs:
            lp = [v for k, v in m.__dict__.items() if k.endswith('__lastProlongateTime')][0]
            mg.append(round(lp - w.time.now, 6) if lp else None)
        log = tuple((e['origin'], e['name'], e['args'][:2], round(e['args'][2] - w.time.now, 6) if len(e['args']) > 2 else None,
                     e['failed'], e['callback'] is not None) for e in w.log[min(w.applied):])
        offs = tuple(a - min(w.applied) for a in w.applied)
        res = tuple((c, op, lk, r, err) for c, op, lk, r, err, t in w.results)
        return (tuple(impls), tuple(mg), log, offs, res, w.nfault, w.nprolong, w.ntime)

    def key(self, hist):
        return self.key_of_world(self.cached(hist))

    def events(self, hist):
        if len(hist) >= self.depth:
            return []
        w = self.cached(hist)
        evs = []
        for c in range(self.nc):
            for lk in self.locks:
                evs.append(('acq', c, lk))
                if self.releases:
                    evs.append(('rel', c, lk))
            if w.nprolong < self.prolongs:
                evs.append(('prolong', c))
        for r in range(self.nc):
            if w.applied[r] < len(w.log):
                evs.append(('apply', r))
        if w.nfault < self.faults:
            for i in range(max(w.applied) if w.applied else 0, len(w.log)):
                if not w.log[i]['failed'] and all(a <= i for a in w.applied):
                    evs.append(('fail', i))
        if w.ntime < self.timesteps:
            for dt in self.dts:
                evs.append(('time', dt))
        return evs

    def apply(self, hist, ev):
        nh = hist + (ev,)
        w = self.cached(nh)
        if w.violation:
            raise core.Violation(w.violation, sig='release-by-non-holder')
        return nh

    def outcome(self, hist):
        w = self.cached(hist)
        return tuple((c, op, r) for c, op, lk, r, err, t in w.results)

    def check(self, hist):
        w = self.cached(hist)
        import pysyncobj.batteries as B
        B.time = w.time
        for lk in self.locks:
            # a client that has asked to release the lock no longer relies on it, even while its own replica has not applied
            # the release yet
            def releasing(c):
                return any(e['origin'] == c and e['name'].startswith('release') and e['args'][0] == lk and not e['failed']
                           for e in w.log[w.applied[c]:])
            owners = [c for c in range(self.nc) if w.mgrs[c].isAcquired(lk) and not releasing(c)]
            if len(owners) > 1:
                return core.Violation('C16 clients %r both consider lock %r held by themselves at the same instant (history %r)' % (
                    owners, lk, list(hist)), sig='two-holders')
        # a late acquisition is reported as failed and the lock is not kept
        for c, op, lk, res, err, t in w.results:
            pass
        v = self.late_acquire(w, hist)
        if v:
            return v
        # told "acquired" implies it holds the lock: at the instant the (timely) success is reported the client's own
        # isAcquired says so too
        if hist:
            prev = self.cached(hist[:-1])
            for c, op, lk, res, err, t in w.results[len(prev.results):]:
                if op == 'acq' and res is True and err == 0 and not w.mgrs[c].isAcquired(lk):
                    return core.Violation('C16 client %d is told tryAcquire(%r) succeeded but at that very instant its isAcquired(%r) is False '
                                          '(history %r)' % (c, lk, lk, list(hist)), sig='told-acquired-not-held')
        # a client only ever holds what it asked for
        asked = set((ev[1], ev[2]) for ev in hist if ev[0] == 'acq')
        for lk in self.locks:
            for c in range(self.nc):
                if (c, lk) not in asked and w.mgrs[c].isAcquired(lk):
                    return core.Violation('C16 client %d holds lock %r (isAcquired) although it never called tryAcquire for it (history %r)' % (
                        c, lk, list(hist)), sig='holds-unrequested-lock')
        return self.obtainable(hist, w)

    def late_acquire(self, w, hist):
        """A tryAcquire whose result came later than T/2 reports False, and once everything
        submitted so far is applied everywhere that client does not hold the lock."""
        late = []
        # reconstruct attempt times: an 'acq' event at history position i happened at the clock value then
        now = 1000.0
        pending = {}
        idx = 0
        for ev in hist:
            if ev[0] == 'time':
                now += ev[1]
            elif ev[0] == 'acq':
                pending.setdefault((ev[1], ev[2]), []).append(now)
        seen = {}
        for c, op, lk, res, err, t in w.results:
            if op != 'acq':
                continue
            i = seen.get((c, lk), 0)
            seen[(c, lk)] = i + 1
            t0 = pending[(c, lk)][i]
            if t - t0 > T / 2.0:
                if res:
                    return core.Violation('C16 tryAcquire(%r) of client %d took %.2f s (more than half of the auto-unlock time %.1f) but '
                                          'reported %r' % (lk, c, t - t0, T, res), sig='late-acquire-reported-success')
                late.append((c, lk))
        for c, lk in late:
            if w.applied[c] == len(w.log):       # the client's own replica has applied everything submitted so far
                # its own later successful acquire may legitimately hold it again
                later_ok = [r for r in w.results if r[0] == c and r[1] == 'acq' and r[2] == lk and r[3] and r[4] == 0]
                if w.mgrs[c].isAcquired(lk) and not later_ok:
                    sig = 'late-acquire-keeps-lock'
                    if any(e['failed'] and e['name'].startswith('release') for e in w.log):
                        sig = 'late-acquire-release-lost'
                    return core.Violation('C16 client %d was told its late tryAcquire(%r) failed but still holds the lock after its replica '
                                          'applied everything submitted (history %r)' % (c, lk, list(hist)), sig=sig)
        return None

    def drain(self, w):
        n = 0
        while True:
            pend = [r for r in range(self.nc) if w.applied[r] < len(w.log)]
            if not pend:
                return True
            self.step(w, ('apply', pend[0]))
            n += 1
            if n > 60:
                return False

    def obtainable(self, hist, w0):
        """Closing run (on a private rebuilt world, mutated in place): nobody prolongs any more;
        everything pending is applied, the auto-unlock time passes, a fresh tryAcquire by any client
        succeeds."""
        if any(e['failed'] for e in w0.log):
            return None      # premise of the property: the holder stopped prolonging, nothing else is broken
        for lk in self.locks:
            for c in range(self.nc):
                w = self.build(list(hist))
                if not self.drain(w):
                    return core.Violation('C16 applying pending entries never quiesces', sig='apply-storm')
                self.step(w, ('time', T + EPS))
                n0 = len(w.results)
                self.step(w, ('acq', c, lk))
                if not self.drain(w):
                    return core.Violation('C16 applying pending entries never quiesces', sig='apply-storm')
                got = [r for r in w.results[n0:] if r[0] == c and r[1] == 'acq' and r[2] == lk]
                if not got or not got[-1][3] or got[-1][4] != 0:
                    return core.Violation('C16 lock %r is not obtainable by client %d after the auto-unlock time although nobody prolongs it '
                                          '(history %r, result %r)' % (lk, c, list(hist), got[-1] if got else None), sig='not-obtainable')
        # variant: only the clients that asked for the lock stop; every other client's prolongation loop keeps running
        # (it prolongs that client's own locks), which must not keep somebody else's expired lock alive
        asked = set((ev[1], ev[2]) for ev in hist if ev[0] == 'acq')
        for lk in self.locks:
            others = [c for c in range(self.nc) if (c, lk) not in asked]
            for p in others:
                for c in range(self.nc):
                    if c == p:
                        continue
                    w = self.build(list(hist))
                    if not self.drain(w):
                        return core.Violation('C16 applying pending entries never quiesces', sig='apply-storm')
                    self.step(w, ('time', T + EPS))
                    self.step(w, ('prolong', p))
                    if not self.drain(w):
                        return core.Violation('C16 applying pending entries never quiesces', sig='apply-storm')
                    n0 = len(w.results)
                    self.step(w, ('acq', c, lk))
                    if not self.drain(w):
                        return core.Violation('C16 applying pending entries never quiesces', sig='apply-storm')
                    got = [r for r in w.results[n0:] if r[0] == c and r[1] == 'acq' and r[2] == lk]
                    if not got or not got[-1][3] or got[-1][4] != 0:
                        return core.Violation('C16 lock %r is not obtainable by client %d after the auto-unlock time: client %d, which never '
                                              'asked for it, went on prolonging its own locks (history %r, result %r)' % (
                                                  lk, c, p, list(hist), got[-1] if got else None), sig='not-obtainable-others-prolong')
        return None


def job(name, **kw):
    m = LockModel(**kw)
    res = core.bfs(m, name=name, known=core.KnownFindings(), prop=PROP)
    res.extra['world_rebuilds'] = m.builds
    res.extra['params'] = kw
    res.samples = [[list(e) for e in s] for s in res.samples]
    for v in res.violations:
        v['trace'] = [list(e) for e in v['trace']]
    return res


PARAMS = {}


def jobs_for(tier):
    q = tier == 'quick'
    d = 5 if q else 6
    js = [
        ('locks:c2:f1p1t2', dict(clients=2, depth=d, faults=1, prolongs=1, timesteps=2)),
        ('locks:c2:f0p2t2', dict(clients=2, depth=d, faults=0, prolongs=2, timesteps=2)),
        ('locks:c2:f0p0t3', dict(clients=2, depth=d + 1, faults=0, prolongs=0, timesteps=3)),
        ('locks:c2:f1p0t1', dict(clients=2, depth=d + 1, faults=1, prolongs=0, timesteps=1)),
        ('locks:c1:f0p1t3', dict(clients=1, depth=d + 2, faults=0, prolongs=1, timesteps=3)),
        # client 0 has held L for three quarters of the auto-unlock time (both replicas applied it): what happens around the deadline
        ('locks:c2:held6s:f0p1t1', dict(clients=2, depth=12, faults=0, prolongs=1, timesteps=3, dts=(DTS[1],) if q else None,
                                        releases=not q, prefix=(('acq', 0, 'L'), ('apply', 0), ('apply', 1), ('time', DTS[2]), ('time', DTS[1])))),
        ('locks:c3:f0p1t1', dict(clients=3, depth=d - 1 if q else d, faults=0, prolongs=1, timesteps=1)),
        ('locks:c2:2locks:f0p1t1', dict(clients=2, locks=('L', 'M'), depth=d - 1 if q else d, faults=0, prolongs=1, timesteps=1)),
    ]
    if not q:
        # thorough: one job per first event (the searches share nothing but the empty history), so that all cores work
        out = []
        for n, kw in js:
            if kw.get('prefix'):
                out.append((n, kw))
                continue
            firsts = LockModel(**kw).events(())
            for ev in firsts:
                if ev[0] in ('acq', 'rel', 'prolong') and ev[1] != 0:
                    continue      # clients are interchangeable: a first event of client 1 is the mirror image of client 0's
                out.append(('%s>%s' % (n, '/'.join(str(x) for x in ev)), dict(kw, prefix=(ev,))))
        return out
    return js


def replay_trace(jobname, trace):
    table = dict(jobs_for('quick') + jobs_for('thorough'))
    m = LockModel(**table[jobname])
    msg, _ = core.replay(m, [tuple(e) for e in trace])
    return msg


def cluster_specs(tier):
    """The replicated lock table through a real cluster (engine E1): replicas that have applied the same entries hold
    the same table, also a replica that received it in a snapshot."""
    from mc.jobs import J
    BM = ('mc.monitors', 'BatteryMonitor', {})
    js = [J('locktable:lagsnap3:S1H2R1', 'battery_lagsnap', dict(n=3, consumers='lock'), dict(S=1, H=2, R=1), dict(ops=(0, 3, 4))),
          J('locktable:lagsnap-released3:H2R1', 'battery_lagsnap', dict(n=3, consumers='lock'), dict(H=2, R=1), dict(pre=(0,), ops=(2, 2, 2))),
          J('locktable:steady2:S2H1', 'steady', dict(n=2, consumers='lock'), dict(S=2, H=1), dict(k=0))]
    for j in js:
        j['max_states'] = 150000 if tier == 'quick' else 1500000
        j['clauses'] = ('C02',)
        j['extra_monitors'] = (BM,)
        j['prop'] = PROP
    return js


def replay_any(jobname, trace):
    if jobname.startswith('locktable'):
        from mc import jobs as _jobs
        table = {s['name']: s for t in ('quick', 'thorough') for s in cluster_specs(t)}
        return _jobs.replay_cluster(table[jobname], trace)
    return replay_trace(jobname, trace)


def main(tier, seed, job_filter=None):
    from mc import jobs as _jobs
    rep = core.Report(PROP, tier, seed, TECH, ASSUME)
    js = [(job, dict(name=n, **kw)) for n, kw in jobs_for(tier) if not job_filter or job_filter in n]
    js += [(_jobs.cluster_job, dict(s, order_seed=seed)) for s in cluster_specs(tier) if not job_filter or job_filter in s['name']]
    rep.replay_fn = replay_any
    rep.add(core.run_jobs(js))
    return rep.finish()


def replay_file(path):
    import json
    d = json.load(open(path))
    msg = replay_any(d['job'], d['trace'])
    print('replay:', msg)
    if msg:
        print('VIOLATION property=%s replay=%s' % (PROP, path))
        return 1
    return 0
