"""C13 - TCP framing delivers each message once, in order and uncorrupted.

Two real TcpConnection objects joined by a simulated socket pair (mc.simsock). The explorer
moves the byte stream one byte at a time and decides when each side is polled, so every cut of
the stream by partial sends, full socket buffers and split or merged reads is reachable; states
are merged on (connection fields, bytes in flight, delivered messages). Corrupt frames (length
field, payload) are injected at every position of the message sequence.
"""
import copy
import struct
import zlib

from mc import core, seams, simsock

PROP = 'C13'
TECH = 'explicit-state BFS over two real TcpConnection objects on a simulated socket pair: byte-granular transfer events and poll events in every order; corruption injected at every frame position'
ASSUME = ['plans: plain = established pair; c: = A dials and sends from its on-connected callback; r: = the peer closes once at any moment, A dials again from inside its onDisconnected callback and queues its next message there; f: = the sender closes after everything was handed to its socket (the end of the stream arrives after the data)',
          'send buffer of 16 bytes and recv size of 8 bytes so that messages are smaller than, around and larger than the buffers',
          'level-triggered poll: WRITE ready iff the socket has free space, READ ready iff data/EOF/error is pending',
          'virtual clock frozen except in t: plans (slow link: the receiver has a read timeout of 10 s and up to two steps of 6 s pass, each only after the receiver has read new bytes, so a connection on which bytes keep arriving must stay up)']

READ, WRITE, ERROR = 1, 2, 4
MESSAGES = {
    'n': None,                                 # the message None
    'e': '',                                   # minimal payload
    's': {'type': 'x', 'n': 1},                 # small
    'm': b'\x00\x01\x02\x03\x04\x05\x06\x07',    # around the buffer sizes once framed
    'L': bytes(range(256))[:90],               # larger than both buffers, hardly compressible
}
CORRUPTIONS = ('len-1', 'len-neg-tail', 'len-min', 'len0', 'len-short', 'len-long', 'len-max', 'flip-first', 'flip-mid', 'flip-last', 'trunc',
               'pickle-opcode', 'pickle-underflow', 'pickle-odd-setitems', 'pickle-global', 'pickle-empty', 'pickle-nostop')
# a well-formed frame and a well-formed deflate stream around a byte string that is not a pickle (the different ways the
# C and the pure-Python unpickler fail: unknown opcode, stack underflow, odd SETITEMS, unknown module, empty, no STOP)
BAD_PICKLES = {'pickle-opcode': b'\xff.', 'pickle-underflow': b'0.', 'pickle-odd-setitems': b'}(K\x01u.',
               'pickle-global': b'cno_such_module_c13\nname\n.', 'pickle-empty': b'', 'pickle-nostop': b'K\x01'}


def frame(msg):
    import pysyncobj.pickle as sp
    data = zlib.compress(sp.dumps(msg), 3)
    return struct.pack('i', len(data)) + data


def corrupt_frame(msg, kind):
    f = frame(msg)
    data = f[4:]
    n = len(data)
    if kind == 'len-1':
        return struct.pack('i', -1) + data
    if kind == 'len-neg-tail':
        # a negative length that, taken as a slice bound, cuts a well-formed payload out of the buffer once six
        # more bytes (the start of the next frame) have arrived behind it
        return struct.pack('i', -10) + data
    if kind == 'len-min':
        return struct.pack('i', -2 ** 31) + data
    if kind == 'len0':
        return struct.pack('i', 0) + data
    if kind == 'len-short':
        return struct.pack('i', n - 1) + data
    if kind == 'len-long':
        return struct.pack('i', n + 1) + data
    if kind == 'len-max':
        return struct.pack('i', 2 ** 31 - 1) + data
    if kind == 'flip-first':
        return f[:4] + bytes([data[0] ^ 0x5a]) + data[1:]
    if kind == 'flip-mid':
        return f[:4] + data[:n // 2] + bytes([data[n // 2] ^ 0x5a]) + data[n // 2 + 1:]
    if kind == 'flip-last':
        return f[:4] + data[:-1] + bytes([data[-1] ^ 0x5a])
    if kind == 'trunc':
        return struct.pack('i', n) + data[:-2]
    if kind in BAD_PICKLES:
        data = zlib.compress(BAD_PICKLES[kind], 3)
        return struct.pack('i', len(data)) + data
    raise ValueError(kind)


SLOW_TIMEOUT = 10.0
DEFINITELY_INVALID = ('len-1', 'len-neg-tail', 'len-min', 'len0', 'len-short', 'flip-first', 'flip-mid', 'flip-last') + tuple(sorted(BAD_PICKLES))


class Rec(object):
    def __init__(self):
        self.delivered = []
        self.delivered2 = []      # on the second connection (reconnect plans)
        self.disc = {'A': 0, 'B': 0}
        self.w = None
        self.reconnect_plan = None

    def on_msg(self, m):
        self.delivered.append(m)

    def on_msg2(self, m):
        self.delivered2.append(m)

    def on_disc_a(self):
        self.disc['A'] += 1
        w = self.w
        if self.reconnect_plan is not None and w is not None and w.epoch == 0:
            # the owner dials again from inside the callback (as TCPTransport does) and queues its next
            # message at once; it has to reach the peer through the new connection
            w.epoch = 1
            # something handed to the dead object before the new attempt starts (send() answers False) is not part
            # of what is sent on the next connection
            w.A.send('stale: sent while disconnected')
            w.A.connect('10.0.0.2', 2)
            w.fa = w.A.fileno()
            w.established = False
            if w.next < len(self.reconnect_plan):
                m = MESSAGES[self.reconnect_plan[w.next]]
                w.sent2.append(m)
                w.next += 1
                w.A.send(m)

    def on_disc_b(self):
        self.disc['B'] += 1


class Hello(object):
    """on-connected callback of the dialing side: sends the first message of the plan while the
    connection object is still in its CONNECTING state (like TCPTransport sends its address)."""

    def __init__(self, w, plan):
        self.w = w
        self.plan = plan

    def __call__(self):
        w = self.w
        m = MESSAGES[self.plan[0]]
        w.sent.append(m)
        w.next = 1
        w.A.send(m)


class W(object):
    """One world: net, poller, the two connections, recorder, progress through the plan."""
    pass


class FramingModel(object):
    def __init__(self, plan, corrupt_at=None, corrupt_kind=None, sndcap=16, recvsize=8, connect=False, reconnect=False, slow=False, fin=False):
        self.fin = fin                    # the sender closes the connection once everything is handed to its socket
        self.slow = slow                  # slow link: virtual time passes while a frame is under way (the receiver has a read timeout)
        self.reconnect = reconnect        # the peer closes once; A's onDisconnected callback dials again and sends
        self.connect = connect            # A dials (non-blocking connect) and sends plan[0] from its on-connected callback
        seams.install()
        simsock.install()
        self.plan = plan                  # string over MESSAGES keys
        self.corrupt_at = corrupt_at
        self.kind = corrupt_kind
        self.sndcap = sndcap
        self.recvsize = recvsize

    def initial(self):
        from pysyncobj.tcp_connection import TcpConnection
        w = W()
        w.net = simsock.Net(sndcap=self.sndcap)
        simsock.NET[0] = w.net
        seams.CLOCK[0] = 1000000.0
        w.poller = simsock.SimPoller()
        w.rec = Rec()
        w.next = 0
        w.sent = []
        if self.connect:
            w.A = TcpConnection(w.poller, onDisconnected=w.rec.on_disc_a, timeout=1e9,
                                sendBufferSize=self.sndcap, recvBufferSize=self.recvsize)
            w.A.setOnConnectedCallback(Hello(w, self.plan))
            w.A.connect('10.0.0.2', 2)
            a = w.net.sockets[w.A.fileno()]
            b = w.net.socket()
            w.fa, w.fb = a.fd, b.fd
            w.B = None
            w.established = False
        else:
            a, b = w.net.pair()
            w.fa, w.fb = a.fd, b.fd
            w.A = TcpConnection(w.poller, onDisconnected=w.rec.on_disc_a, socket=a, timeout=1e9,
                                sendBufferSize=self.sndcap, recvBufferSize=self.recvsize)
            w.B = TcpConnection(w.poller, onMessageReceived=w.rec.on_msg, onDisconnected=w.rec.on_disc_b, socket=b,
                                timeout=(SLOW_TIMEOUT if self.slow else 1e9), sendBufferSize=self.sndcap, recvBufferSize=self.recvsize)
            w.established = True
        w.now = 1000000.0
        w.tsteps = 0
        w.read_since = False
        w.corrupt_idx = None
        w.exc = None
        w.epoch = 0
        w.sent2 = []
        w.rec.w = w
        if self.reconnect:
            w.rec.reconnect_plan = self.plan
        return w

    def _fields(self, c):
        d = c.__dict__
        return tuple((k.split('__')[-1], bytes(v) if isinstance(v, (bytes, bytearray)) else v) for k, v in sorted(d.items())
                     if isinstance(v, (bytes, bytearray, int, float, str, type(None))) and not k.endswith('lastReadTime'))

    def key(self, w):
        return (self._fields(w.A), self._fields(w.B) if w.B is not None else None, w.established, w.net.key(), w.poller.key(), w.next, len(w.rec.delivered),
                tuple(sorted(w.rec.disc.items())), w.epoch, len(w.rec.delivered2), w.fa, w.fb,
                (w.tsteps, w.read_since, round(w.now - w.B._TcpConnection__lastReadTime, 3)) if self.slow and w.B is not None else None)

    def outcome(self, w):
        return (len(w.rec.delivered), w.B.state if w.B is not None else None, w.A.state)

    def events(self, w):
        evs = []
        sa, sb = w.net.sockets[w.fa], w.net.sockets[w.fb]
        if not w.established:
            return [('est',)]
        if self.reconnect and w.epoch == 0 and w.B.state == 2:
            evs.append(('closeB',))
        if self.fin and w.next == len(self.plan) and w.A.state == 2 and w.A.getSendBufferSize() == 0:
            evs.append(('closeA',))
        if w.next < len(self.plan) and w.A.state == 2 and (w.next > 0 or not self.connect):
            if self.corrupt_at == w.next:
                if w.A.getSendBufferSize() == 0:
                    evs.append(('inject',))
            else:
                evs.append(('send',))
        if self.slow and w.tsteps < 2 and w.read_since and w.B.state == 2:
            # time passes only after the receiver has read something new: bytes keep arriving, just slowly
            evs.append(('time',))
        if sa.out:
            evs.append(('xfer', 'A'))
        if sb.out:
            evs.append(('xfer', 'B'))
        # level-triggered readiness, intersected with the subscribed mask
        for name, s, fd in (('A', sa, w.fa), ('B', sb, w.fb)):
            sub = w.poller.subs.get(fd)
            if sub is None or s.state == 'closed':
                continue
            mask = 0
            if (s.rcv or s.eof_ready() or s.err) and sub[1] & READ:
                mask |= READ
            if len(s.out) < s.cap and sub[1] & WRITE:
                mask |= WRITE
            if mask:
                evs.append(('poll', name, mask))
                if mask == READ | WRITE:
                    evs.append(('poll', name, READ))
                    evs.append(('poll', name, WRITE))
        return evs

    def apply(self, w0, ev):
        w = copy.deepcopy(w0)
        simsock.NET[0] = w.net
        seams.CLOCK[0] = w.now
        try:
            if ev[0] == 'time':
                w.now += 0.6 * SLOW_TIMEOUT
                w.tsteps += 1
                w.read_since = False
            elif ev[0] == 'est':
                from pysyncobj.tcp_connection import TcpConnection
                a, b = w.net.sockets[w.fa], w.net.sockets[w.fb]
                a.state = b.state = 'connected'
                a.peer, b.peer = b.fd, a.fd
                if a.fd in w.net.pending_connects:
                    w.net.pending_connects.remove(a.fd)
                if w.epoch == 1:
                    b = w.net.socket()
                    b.state = 'connected'
                    a.peer, b.peer = b.fd, a.fd
                    w.fb = b.fd
                w.B = TcpConnection(w.poller, onMessageReceived=(w.rec.on_msg2 if w.epoch == 1 else w.rec.on_msg),
                                    onDisconnected=w.rec.on_disc_b, socket=b,
                                    timeout=1e9, sendBufferSize=self.sndcap, recvBufferSize=self.recvsize)
                w.established = True
            elif ev[0] == 'closeB':
                w.B.disconnect()
            elif ev[0] == 'closeA':
                w.A.disconnect()
            elif ev[0] == 'send':
                m = MESSAGES[self.plan[w.next]]
                (w.sent2 if w.epoch == 1 else w.sent).append(m)
                w.next += 1
                w.A.send(m)
            elif ev[0] == 'inject':
                m = MESSAGES[self.plan[w.next]]
                w.sent.append(m)
                w.corrupt_idx = len(w.sent) - 1
                w.next += 1
                w.net.sockets[w.fa].out += corrupt_frame(m, self.kind)
            elif ev[0] == 'xfer':
                w.net.transfer(w.fa if ev[1] == 'A' else w.fb, 1)
            elif ev[0] == 'poll':
                fd = w.fa if ev[1] == 'A' else w.fb
                if ev[1] == 'B' and ev[2] & READ and w.net.sockets[fd].rcv:
                    w.read_since = True
                w.poller.dispatch(fd, ev[2])
        except Exception as e:
            import traceback
            raise core.Violation('C13 exception escaped %r: %s: %s (%s)' % (
                ev, type(e).__name__, e, traceback.format_exc().strip().splitlines()[-3].strip()), sig='exception-escapes')
        return w

    def check(self, w):
        if self.reconnect:
            return self.check_reconnect(w)
        if self.fin:
            d = w.rec.delivered
            if d != w.sent[:len(d)]:
                return 'C13 delivered %r, sent %r' % (d, w.sent)
            if not self.events(w) and w.A.state == 0 and d != w.sent:
                return ('C13 the sender closed the connection after everything it sent had been handed to its socket; the bytes and '
                        'the end of the stream arrived, but only %r of %r were delivered' % (d, w.sent))
            return None
        d = w.rec.delivered
        limit = len(w.sent)
        if w.corrupt_idx is not None:
            # nothing AFTER the corrupt frame may be delivered; the frame itself may still decode to its own
            # message (e.g. a length field that is one too long: zlib ignores a trailing byte)
            limit = w.corrupt_idx + 1
        if len(d) > limit or d != w.sent[:len(d)]:
            return 'C13 delivered %r, sent %r%s' % (d, w.sent, ' (corrupt frame %s at index %d)' % (self.kind, w.corrupt_idx)
                                                    if w.corrupt_idx is not None else '')
        if w.rec.disc['B'] > 1 or w.rec.disc['A'] > 1:
            return 'C13 onDisconnected fired twice: %r' % (w.rec.disc,)
        if not self.events(w):
            # quiescent
            if w.corrupt_idx is None:
                if w.next == len(self.plan) and d != w.sent:
                    return 'C13 quiescent with all bytes delivered but messages %r of %r arrived' % (d, w.sent)
                if w.B is None or w.B.state != 2 or w.A.state != 2:
                    return 'C13 connection dropped without any corruption (A=%r B=%r)' % (w.A.state, w.B.state)
            else:
                if self.kind in DEFINITELY_INVALID and (w.B.state != 0 or w.rec.disc['B'] != 1):
                    return 'C13 invalid frame (%s) fully received but the connection is still up (state %r, onDisconnected %d)' % (
                        self.kind, w.B.state, w.rec.disc['B'])
        return None


def _check_reconnect(self, w):
    d, d2 = w.rec.delivered, w.rec.delivered2
    if d != w.sent[:len(d)]:
        return 'C13 first connection delivered %r, sent %r' % (d, w.sent)
    if d2 != w.sent2[:len(d2)]:
        return 'C13 second connection delivered %r, sent on it %r' % (d2, w.sent2)
    if w.rec.disc['A'] > 1:
        return 'C13 onDisconnected of A fired %d times for one close' % w.rec.disc['A']
    if not self.events(w) and w.epoch == 1:
        if w.A.state != 2 or w.B is None or w.B.state != 2:
            return 'C13 quiescent after the reconnect but the connection is not up (A=%r B=%r)' % (w.A.state, w.B and w.B.state)
        if w.next == len(self.plan) and d2 != w.sent2:
            return ('C13 messages queued on the new connection (the first one from inside the onDisconnected callback) were lost: '
                    'delivered %r, sent %r' % (d2, w.sent2))
    return None


FramingModel.check_reconnect = _check_reconnect


def make_model(plan, at=None, kind=None):
    if plan.startswith('c:'):
        return FramingModel(plan[2:], at, kind, connect=True)
    if plan.startswith('r:'):
        return FramingModel(plan[2:], at, kind, reconnect=True)
    if plan.startswith('f:'):
        return FramingModel(plan[2:], at, kind, fin=True)
    if plan.startswith('t:'):
        return FramingModel(plan[2:], at, kind, slow=True)
    return FramingModel(plan, at, kind)


def job(name, plans, corrupt, kinds=None):
    import time
    t0 = time.time()
    total = core.SearchResult(name)
    known = core.KnownFindings()
    for plan in plans:
        variants = [(None, None)]
        if corrupt:
            variants = [(i, k) for i in range(len(plan)) for k in (kinds or CORRUPTIONS)]
        for at, kind in variants:
            m = make_model(plan, at, kind)
            r = core.bfs(m, name='%s/%s/%s@%s' % (name, plan, kind, at), known=known, prop=PROP)
            total.states += r.states
            total.transitions += r.transitions
            total.max_depth = max(total.max_depth, r.max_depth)
            total.outcomes |= set((plan, at, kind) + tuple(o) for o in r.outcomes)
            for v in r.violations:
                v['trace'] = [['plan', plan, at, kind]] + [list(e) for e in v['trace']]
                total.violations.append(v)
            if len(total.violations) >= 3:
                break
        if len(total.violations) >= 3:
            break
    total.samples = [[['plan', plans[-1]], ['send'], ['xfer', 'A'], ['poll', 'B', 1]]]
    total.extra.update(dict(plans=list(plans), corruptions=list(kinds or CORRUPTIONS) if corrupt else []))
    total.wall_s = time.time() - t0
    return total


def plans_of(maxlen, alphabet='esmL'):
    import itertools
    out = []
    for n in range(1, maxlen + 1):
        for p in itertools.product(alphabet, repeat=n):
            out.append(''.join(p))
    return out


def replay_trace(jobname, trace):
    head = trace[0]
    m = make_model(head[1], head[2], head[3])
    msg, _ = core.replay(m, [tuple(e) for e in trace[1:]])
    return msg


def main(tier, seed, job_filter=None):
    rep = core.Report(PROP, tier, seed, TECH, ASSUME)
    q = tier == 'quick'
    if q:
        clean = ['n', 'ns', 'e', 's', 'm', 'es', 'se', 'c:s', 'c:m', 'c:se', 'r:e', 'r:s', 't:e', 'f:e', 'f:s']
        cplans = ['s', 'es']
    else:
        clean = plans_of(2, 'esm') + ['n', 'ns', 'sn', 'nn', 'L', 'eL', 'Ls'] + ['ese', 'sms', 'ems'] + ['c:s', 'c:m', 'c:L', 'c:se', 'c:ms', 'r:e', 'r:s', 'r:m', 'r:es', 'r:ss', 't:e', 't:s', 't:m', 'f:e', 'f:s', 'f:se', 'f:m']
        cplans = plans_of(2, 'esm') + ['m', 's', 'e']
    jobs = [(job, dict(name='framing:clean:%s' % p, plans=[p], corrupt=False)) for p in clean]
    for p in cplans:
        for k in CORRUPTIONS:
            jobs.append((job, dict(name='framing:corrupt:%s:%s' % (p, k), plans=[p], corrupt=True, kinds=[k])))
    jobs.sort(key=lambda j: -len(j[1]['plans'][0].replace('c:', '').replace('r:', '').replace('t:', '').replace('f:', '')))
    if job_filter:
        jobs = [j for j in jobs if job_filter in j[1]['name']]
    rep.replay_fn = replay_trace
    rep.add(core.run_jobs(jobs))
    return rep.finish()


def replay_file(path):
    import json
    d = json.load(open(path))
    msg = replay_trace(d['job'], d['trace'])
    print('replay:', msg)
    if msg:
        print('VIOLATION property=%s replay=%s' % (PROP, path))
        return 1
    return 0
