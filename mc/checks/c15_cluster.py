"""C15 part B: the battery alphabet through a replicated cluster (engine E1), including a lagging
follower that receives the batteries through a snapshot. Oracle: replicas with the same applied
index hold the same battery contents (differential, no hand-written expected values)."""
from mc import core, jobs
from mc.jobs import J

BM = ('mc.monitors', 'BatteryMonitor', {})
CL = ('C02',)


def specs(tier):
    q = tier == 'quick'
    js = []
    for name, ops in (('queue2', (0, 1, 2, 0)), ('pqueue2', (0, 1, 2)), ('list', (0, 1, 4)), ('dict', (0, 1, 2)), ('set', (0, 1, 2)),
                      ('counter', (0, 1, 0)), ('all', (0, 1, 3, 4, 5, 7))):
        js.append(J('bat-%s:lagsnap3:S1H2R1' % name, 'battery_lagsnap', dict(n=3, consumers=name), dict(S=1, H=2, R=1), dict(ops=ops)))
        if name in ('queue2', 'dict', 'list') or not q:
            js.append(J('bat-%s:steady2:S3H1' % name, 'steady', dict(n=2, consumers=name), dict(S=2 if q else 3, H=1), dict(k=0)))
    # the laggard holds filled batteries, the snapshot it installs holds emptied ones (three entries behind, so that
    # the entries it lacks are no longer in the leader's compacted log)
    for name, pre, ops in (('counter', (0,), (2, 2, 2)), ('list', (0,), (2, 2, 2)), ('dict', (0,), (4, 4, 4)), ('set', (0,), (2, 3, 3)), ('queue2', (0,), (2, 2, 2)),
                           ('pqueue2', (0,), (2, 2, 2)), ('all', (1, 5, 7, 3), (2, 6, 8))):
        js.append(J('bat-%s:lagsnap-emptied3:H2R1' % name, 'battery_lagsnap', dict(n=3, consumers=name), dict(H=2, R=1), dict(ops=ops, pre=pre)))
    if not q:
        js.append(J('bat-queue+dict:lagsnap3-chunk64:S1H2R1', 'battery_lagsnap', dict(n=3, consumers='queue+dict', chunk=64), dict(S=1, H=2, R=1),
                    dict(ops=(0, 2, 1))))
        js.append(J('bat-all:journal-restart2:S1H1P1K1', 'steady', dict(n=2, consumers='all', journal='file+dump'), dict(S=1, H=1, P=1, K=1), dict(k=0)))
    for j in js:
        j['max_states'] = 150000 if q else 1500000
        j['clauses'] = CL
        j['extra_monitors'] = (BM,)
        j['prop'] = 'C15'
    return js


def run(tier, seed, job_filter=None):
    table = specs(tier)
    js = [(jobs.cluster_job, dict(s, order_seed=seed)) for s in table if not job_filter or job_filter in s['name']]
    return core.run_jobs(js)
