"""C01 - see DESIGN.md section 4/C01. Explicit-state BFS over real SyncObj nodes (engine E1)."""
from mc import jobs
from mc.checks import raftjobs

PROP = 'C01'
TECH = 'explicit-state BFS over worlds of real SyncObj nodes (simulated transport/clock), ghost-state monitor evaluated on every transition and state'
ASSUME = ['per-link FIFO network model (SimTransport); reconnect only after both endpoints noticed the drop',
          'random election timeout fixed to its minimum; the explorer decides when a timeout fires (event E)',
          'zero-time ticks Z, heartbeat-sized ticks H on leaders, election-sized ticks E on non-leaders',
          'bounds: per-job budgets in coverage.jobs[].budget; seeds are scripted prefixes in the same alphabet']


def specs(tier):
    return raftjobs.common(tier)


def main(tier, seed, job_filter=None):
    return jobs.run_cluster_check(PROP, tier, seed, specs(tier), (PROP,), TECH, ASSUME, job_filter)


def replay_file(path):
    return jobs.replay_file_cluster(PROP, path, specs('thorough'))
