"""C15 - batteries behave like the Python containers they mimic.

Part A (E4, this file): explicit-state BFS over all operation sequences (small argument
domains) of each battery, executed on the real battery methods (the replicated wrapper's
apply path, `_doApply=True`, i.e. exactly what a replica executes for a log entry), compared
step by step against the builtin reference.
Part B (E1, mc.checks.c15 cluster jobs): the same alphabet through a replicated cluster with a
snapshot-installed follower; all replicas equal (added by cluster.battery_jobs).
"""
import copy
import heapq
import collections

from mc import core


# ---- reference models ---------------------------------------------------------------

class RefCounter(object):
    def __init__(self):
        self.v = 0

    def set(self, x):
        self.v = x
        return self.v

    def add(self, x):
        self.v += x
        return self.v

    def sub(self, x):
        self.v -= x
        return self.v

    def inc(self):
        self.v += 1
        return self.v

    def contents(self):
        return self.v


class RefList(object):
    def __init__(self):
        self.d = []

    def reset(self, x):
        self.d = list(x)

    def set(self, p, v):
        self.d[p] = v

    def __setitem__(self, p, v):
        self.d[p] = v

    def append(self, x):
        self.d.append(x)

    def extend(self, x):
        self.d.extend(x)

    def insert(self, p, x):
        self.d.insert(p, x)

    def remove(self, x):
        self.d.remove(x)

    def pop(self, *a):
        return self.d.pop(*a)

    def sort(self, reverse=False):
        self.d.sort(reverse=reverse)

    def contents(self):
        return list(self.d)


class RefDict(object):
    def __init__(self):
        self.d = {}

    def reset(self, x):
        self.d = dict(x)

    def __setitem__(self, k, v):
        self.d[k] = v

    def set(self, k, v):
        self.d[k] = v

    def setdefault(self, k, v):
        return self.d.setdefault(k, v)

    def update(self, o):
        self.d.update(o)

    def pop(self, k, default=None):
        # documented: "Remove and return value for given key, return default if key not exist"
        return self.d.pop(k, default)

    def clear(self):
        self.d.clear()

    def contents(self):
        return sorted(self.d.items())


class RefSet(object):
    def __init__(self):
        self.d = set()

    def reset(self, x):
        self.d = set(x)

    def add(self, x):
        self.d.add(x)

    def remove(self, x):
        self.d.remove(x)

    def discard(self, x):
        self.d.discard(x)

    def clear(self):
        self.d.clear()

    def update(self, o):
        self.d.update(o)

    def contents(self):
        return sorted(self.d)


class RefQueue(object):
    def __init__(self, maxsize=0):
        self.m = maxsize
        self.d = collections.deque()

    def put(self, x):
        if self.m and len(self.d) >= self.m:
            return False
        self.d.append(x)
        return True

    def get(self, default=None):
        if not self.d:
            return default
        return self.d.popleft()

    def contents(self):
        return list(self.d)


class RefPQ(object):
    def __init__(self, maxsize=0):
        self.m = maxsize
        self.d = []

    def put(self, x):
        if self.m and len(self.d) >= self.m:
            return False
        heapq.heappush(self.d, x)
        return True

    def get(self, default=None):
        if not self.d:
            return default
        return heapq.heappop(self.d)

    def contents(self):
        return sorted(self.d)


# ---- alphabets ----------------------------------------------------------------------

def spec_table():
    from pysyncobj import batteries as B
    V = (0, 1, 2)
    K = ('a', 'b')
    specs = {}
    specs['ReplCounter'] = dict(
        make=lambda: (B.ReplCounter(), RefCounter()),
        ops=[('set', (v,), {}) for v in V] + [('add', (v,), {}) for v in (1, 2)] +
            [('sub', (v,), {}) for v in (1, 2)] + [('inc', (), {})],
        reads=[('get', lambda b: b.get(), lambda r: r.v)],
        contents=lambda b: b.get())
    specs['ReplList'] = dict(
        make=lambda: (B.ReplList(), RefList()),
        ops=[('append', (v,), {}) for v in (0, 1, None)] +
            [('pop', (), {}), ('pop', (0,), {}), ('pop', (1,), {}), ('pop', (-1,), {}),
             ('remove', (0,), {}), ('remove', (1,), {}),
             ('insert', (0, 2), {}), ('insert', (1, 2), {}),
             ('set', (0, 1), {}), ('set', (1, 0), {}), ('__setitem__', (0, 2), {}),
             ('extend', ([1, 0],), {}), ('reset', ([2, 1],), {}), ('reset', ([],), {}),
             ('sort', (), {}), ('sort', (), {'reverse': True})],
        reads=[('len', len, lambda r: len(r.d)),
               ('get0', lambda b: b.get(0), lambda r: r.d[0]),
               ('item-1', lambda b: b[-1], lambda r: r.d[-1]),
               ('index1', lambda b: b.index(1), lambda r: r.d.index(1)),
               ('count0', lambda b: b.count(0), lambda r: r.d.count(0))],
        contents=lambda b: list(b.rawData()))
    specs['ReplDict'] = dict(
        make=lambda: (B.ReplDict(), RefDict()),
        ops=[('set', (k, v), {}) for k in K for v in (0, 1)] + [('set', ('a', None), {})] +
            [('__setitem__', ('a', 2), {})] +
            [('setdefault', (k, 2), {}) for k in K] +
            [('pop', (k,), {}) for k in K] + [('pop', ('a', 7), {}), ('pop', ('b',), {'default': 8})] +
            [('update', ({'a': 5, 'b': 6},), {}), ('update', ({},), {}), ('update', ([('b', 3)],), {}), ('clear', (), {}),
             ('reset', ({'b': 9},), {})],
        reads=[('len', len, lambda r: len(r.d)),
               ('geta', lambda b: b.get('a'), lambda r: r.d.get('a')),
               ('getb7', lambda b: b.get('b', 7), lambda r: r.d.get('b', 7)),
               ('item_a', lambda b: b['a'], lambda r: r.d['a']),
               ('in_b', lambda b: 'b' in b, lambda r: 'b' in r.d),
               ('keys', lambda b: sorted(b.keys()), lambda r: sorted(r.d.keys())),
               ('values', lambda b: sorted(b.values()), lambda r: sorted(r.d.values())),
               ('items', lambda b: sorted(b.items()), lambda r: sorted(r.d.items()))],
        contents=lambda b: sorted(b.rawData().items()))
    specs['ReplSet'] = dict(
        make=lambda: (B.ReplSet(), RefSet()),
        ops=[('add', (v,), {}) for v in V] + [('remove', (v,), {}) for v in (0, 1)] +
            [('discard', (v,), {}) for v in (0, 2)] + [('pop', (), {}), ('clear', (), {}),
             ('update', ({1, 2},), {}), ('update', (set(),), {}), ('update', ([0, 2],), {}),
             ('reset', ({0},), {})],
        reads=[('len', len, lambda r: len(r.d)),
               ('in1', lambda b: 1 in b, lambda r: 1 in r.d)],
        contents=lambda b: sorted(b.rawData()))
    for m in (0, 1, 2):
        specs['ReplQueue(%d)' % m] = dict(
            make=(lambda m=m: (B.ReplQueue(m) if m else B.ReplQueue(), RefQueue(m))),
            ops=[('put', (v,), {}) for v in (0, 1)] + [('get', (), {}), ('get', (9,), {}),
                                                       ('get', (), {'default': 8})],
            reads=[('qsize', lambda b: b.qsize(), lambda r: len(r.d)),
                   ('len', len, lambda r: len(r.d)),
                   ('empty', lambda b: b.empty(), lambda r: len(r.d) == 0)] +
                  ([('full', lambda b: b.full(), lambda r, m=m: len(r.d) >= m)] if m else []),
            contents=None)
        specs['ReplPriorityQueue(%d)' % m] = dict(
            make=(lambda m=m: (B.ReplPriorityQueue(m) if m else B.ReplPriorityQueue(), RefPQ(m))),
            ops=[('put', (v,), {}) for v in (2, 0, 1)] + [('get', (), {}), ('get', (9,), {}),
                                                          ('get', (), {'default': 8})],
            reads=[('qsize', lambda b: b.qsize(), lambda r: len(r.d)),
                   ('len', len, lambda r: len(r.d)),
                   ('empty', lambda b: b.empty(), lambda r: len(r.d) == 0)] +
                  ([('full', lambda b: b.full(), lambda r, m=m: len(r.d) >= m)] if m else []),
            contents=None)
    return specs


def battery_state(b):
    """Replicated state of a battery as the library itself defines it (what goes into
    snapshots): SyncObjConsumer._serialize()."""
    d = b._serialize()
    out = []
    for k in sorted(d):
        v = d[k]
        if isinstance(v, (set, frozenset)):
            v = ('set', tuple(sorted(v)))
        elif isinstance(v, dict):
            v = ('dict', tuple(sorted(v.items())))
        elif isinstance(v, collections.deque):
            v = ('deque', tuple(v))
        elif isinstance(v, list):
            v = ('list', tuple(v))
        out.append((k.split('__')[-1], v))
    return tuple(out)


def call(fn):
    try:
        return ('ok', fn())
    except Exception as e:
        return ('exc', type(e).__name__)


class BatteryModel(object):
    def __init__(self, name, depth):
        self.name = name
        self.spec = spec_table()[name]
        self.depth = depth

    def initial(self):
        b, r = self.spec['make']()
        return (b, r, 0)

    def events(self, st):
        if st[2] >= self.depth:
            return []
        return list(range(len(self.spec['ops'])))

    def describe(self, ev):
        return self.spec['ops'][ev]

    def key(self, st):
        b, r, d = st
        return (battery_state(b), repr(r.contents()), d)

    def outcome(self, st):
        return repr(st[1].contents())

    def apply(self, st, ev):
        b, r, d = st
        b = copy.deepcopy(b)
        r = copy.deepcopy(r)
        name, args, kwargs = self.spec['ops'][ev]
        a1, a2 = copy.deepcopy(args), copy.deepcopy(args)
        k1, k2 = copy.deepcopy(kwargs), copy.deepcopy(kwargs)
        if name == 'pop' and isinstance(r, RefSet):
            got = call(lambda: getattr(b, name)(*a1, _doApply=True, **k1))
            if r.d:
                if got[0] != 'ok' or got[1] not in r.d:
                    raise core.Violation('%s.pop() on %r gave %r' % (self.name, r.contents(), got))
                r.d.remove(got[1])
            elif got != ('exc', 'KeyError'):
                raise core.Violation('%s.pop() on empty set gave %r, set.pop raises KeyError' % (self.name, got))
        else:
            got = call(lambda: getattr(b, name)(*a1, _doApply=True, **k1))
            want = call(lambda: getattr(r, name)(*a2, **k2))
            if got != want:
                raise core.Violation('%s.%s%r%s on contents %r: battery %r, builtin %r' % (
                    self.name, name, args, kwargs or '', st[1].contents(), got, want))
        return (b, r, d + 1)

    def check(self, st):
        b, r, d = st
        c = self.spec['contents']
        if c is not None:
            got = c(b)
            if got != r.contents():
                return 'contents differ: battery %r, builtin %r' % (got, r.contents())
        for nm, fb, fr in self.spec['reads']:
            g, w = call(lambda: fb(b)), call(lambda: fr(r))
            if g != w:
                return '%s read %s on contents %r: battery %r, builtin %r' % (self.name, nm, r.contents(), g, w)
        return None


def job(name, depth):
    m = BatteryModel(name, depth)
    res = core.bfs(m, name='direct:%s:depth%d' % (name, depth), known=core.KnownFindings(), prop='C15')
    res.samples = [[m.describe(e) for e in s] for s in res.samples]
    for v in res.violations:
        v['trace'] = [m.describe(e) for e in v['trace']]
    res.outcomes = set(res.outcomes)
    return res


def replay_trace(jobname, trace):
    if jobname.startswith('bat-'):
        from mc import jobs as _jobs
        from mc.checks import c15_cluster
        table = {s['name']: s for t in ('quick', 'thorough') for s in c15_cluster.specs(t)}
        return _jobs.replay_cluster(table[jobname], trace)
    kind, name, depth = jobname.split(':')
    m = BatteryModel(name, 99) if kind == 'direct' else ReplicatedBatteryModel(name, 99, 1 if kind.endswith('-v1') else 0)
    ops = m.spec['ops']
    evs = []
    for t in trace:
        t = (t[0], tuple(t[1]) if not isinstance(t[1], tuple) else t[1], t[2])
        for i, o in enumerate(ops):
            if repr(core.jsonable(o)) == repr(core.jsonable(t)):
                evs.append(i)
                break
        else:
            raise core.HarnessError('unknown op %r' % (t,))
    msg, _ = core.replay(m, evs)
    return msg


def main(tier, seed, job_filter=None):
    depth = 6 if tier == "quick" else 8
    rep = core.Report('C15', tier, seed, 'explicit-state BFS over battery operation sequences vs builtin reference '
                      '(direct) + replicated cluster exploration (see cluster jobs)',
                      assumptions=['argument domains {0,1,2}/{a,b}; queue maxsize in {0,1,2}',
                                   'ReplSet.pop compared as "some member" (documented as arbitrary)',
                                   'full() compared only for maxsize>0'])
    jobs = [(job, dict(name=n, depth=(depth if 'List' not in n and 'Dict' not in n else depth - (0 if tier == 'quick' else 1))))
            for n in spec_table()]
    rdepth = 3 if tier == 'quick' else 4
    jobs += [(job_replicated, dict(name=n, depth=rdepth)) for n in spec_table() if '(1)' not in n]
    jobs += [(job_replicated, dict(name='ReplList', depth=rdepth - 1, version=1))]     # ReplList.__setitem__ needs version 1
    if job_filter:
        jobs = [j for j in jobs if job_filter in j[1]['name']]
    rep.replay_fn = replay_trace
    rep.add(core.run_jobs(jobs))
    try:
        from mc.checks import c15_cluster
        rep.add(c15_cluster.run(tier, seed, job_filter))
    except ImportError:
        pass
    return rep.finish()


def replay_file(path):
    import json
    d = json.load(open(path))
    msg = replay_trace(d['job'], d['trace'])
    print('replay:', msg)
    if msg:
        print('VIOLATION property=C15 replay=%s' % path)
        return 1
    return 0


# ---- Part A': the same alphabets through the replication path of a one-node cluster ---------

class ReplicatedBatteryModel(object):
    """State = operation history; every operation is CALLED the way a user calls it (positional
    and keyword arguments, callback) on a battery attached to a real one-node SyncObj, travels
    through the command queue, the log and the apply loop, and its callback result and the
    battery contents are compared with the builtin. Catches argument encoding / decoding
    problems that the direct `_doApply` path cannot see."""

    def __init__(self, name, depth, version=0):
        self.name = name
        self.spec = spec_table()[name]
        self.depth = depth
        self.version = version      # code version enabled (through setCodeVersion) before the operations
        self._cache = None

    def build(self, hist):
        if self._cache is not None and self._cache[0] == hist:
            return self._cache[1]
        from mc import cluster, seams, vfs
        b, r = self.spec['make']()
        cfg = cluster.Config(n=1)
        rec = cluster.Recorder()
        seams.CLOCK[0] = cluster.T0
        seams.RAND[0] = 0.0
        v = vfs.VFS()
        vfs.activate(v)
        so = cluster.ListObj('n1:1', [], cluster.make_conf(cfg, rec, 'n1:1'), cluster.SimTransport('n1:1'), consumers=[b])
        rec.so = so
        seams.CLOCK[0] += 1.0
        so._onTick(0.0)
        so._onTick(0.0)
        msg = None
        results = []
        if self.version:
            # a battery method introduced with a code version is usable once the cluster enabled that version
            got = []
            try:
                so.setCodeVersion(self.version, callback=lambda res, err: got.append((res, err)))
                for _ in range(3):
                    seams.CLOCK[0] += 0.02
                    so._onTick(0.0)
            except Exception as e:
                got = [('raised', '%s: %s' % (type(e).__name__, e))]
            if len(got) != 1 or got[0][1] != 0:
                msg = 'a host of %s cannot enable code version %d, which a method of the battery needs: %r' % (self.name, self.version, got)
                hist = ()
        for ev in hist:
            name, args, kwargs = self.spec['ops'][ev]
            a1, a2 = copy.deepcopy(args), copy.deepcopy(args)
            k1, k2 = copy.deepcopy(kwargs), copy.deepcopy(kwargs)
            got = []
            try:
                getattr(b, name)(*a1, callback=lambda res, err: got.append((res, err)), **k1)
                for _ in range(3):
                    seams.CLOCK[0] += 0.02
                    so._onTick(0.0)
            except Exception as e:
                msg = '%s.%s%r%s through a one-node cluster raised %s: %s' % (self.name, name, args, kwargs or '', type(e).__name__, e)
                break
            if len(got) != 1 or got[0][1] != 0:
                msg = '%s.%s%r%s through a one-node cluster: callback %r' % (self.name, name, args, kwargs or '', got)
                break
            res = got[0][0]
            mine = ('exc', type(res).__name__) if isinstance(res, Exception) else ('ok', res)
            if name == 'pop' and isinstance(r, RefSet):
                if r.d:
                    if mine[0] != 'ok' or mine[1] not in r.d:
                        msg = '%s.pop() gave %r on %r' % (self.name, mine, r.contents())
                        break
                    r.d.remove(mine[1])
                elif mine != ('exc', 'KeyError'):
                    msg = '%s.pop() on an empty set gave %r' % (self.name, mine)
                    break
            else:
                want = call(lambda: getattr(r, name)(*a2, **k2))
                if mine != want:
                    msg = '%s.%s%r%s called through a one-node cluster: battery %r, builtin %r (contents before: see history %r)' % (
                        self.name, name, args, kwargs or '', mine, want, [self.spec['ops'][e][0] for e in hist])
                    break
            results.append(mine)
        w = (b, r, msg)
        self._cache = (hist, w)
        return w

    def initial(self):
        return ()

    def events(self, hist):
        if len(hist) >= self.depth:
            return []
        b = self.build(hist)[0]
        # methods introduced with a code version > 0 cannot be called before that version is enabled
        return [i for i, (name, a, k) in enumerate(self.spec['ops']) if getattr(getattr(b, name), 'ver', 0) <= self.version]

    def key(self, hist):
        b, r, msg = self.build(hist)
        return (battery_state(b), repr(r.contents()), len(hist))

    def apply(self, hist, ev):
        nh = hist + (ev,)
        b, r, msg = self.build(nh)
        if msg:
            raise core.Violation('C15 ' + msg, sig='replicated-call-differs')
        return nh

    def outcome(self, hist):
        return repr(self.build(hist)[1].contents())

    def check(self, hist):
        b, r, msg = self.build(hist)
        c = self.spec['contents']
        if c is not None and c(b) != r.contents():
            return 'C15 contents after replicated calls differ: battery %r, builtin %r' % (c(b), r.contents())
        return None


def job_replicated(name, depth, version=0):
    m = ReplicatedBatteryModel(name, depth, version)
    res = core.bfs(m, name='replicated1%s:%s:depth%d' % ('-v%d' % version if version else '', name, depth), known=core.KnownFindings(), prop='C15')
    res.samples = [[m.spec['ops'][e] for e in s] for s in res.samples]
    for v in res.violations:
        v['trace'] = [m.spec['ops'][e] for e in v['trace']]
    return res
