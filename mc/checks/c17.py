"""C17 - code versions: stable method ids, cluster-wide switch, survives snapshot/restart.

Part (i)  programs: every class shape in a bounded grammar (object + up to 2 consumers, method
          names {a,b}, version sets within {0,1,2}) generated as source text and exec'ed so that the
          real `replicated` decorator sees a real class body; for every (old, new) pair where new
          only adds versions higher than every version in old, the id -> (owner, name, version)
          table of old must be a prefix of new's; and for every shape and every enabled version a
          call by name must be encoded with the id of the newest implementation not above it.
Part (ii) histories (engine E1): nodes running old and new code, setCodeVersion placed anywhere
          relative to submissions, compaction, snapshot install, restart.
"""
import itertools
import time

from mc import core, jobs
from mc.jobs import J

PROP = 'C17'
TECH = 'exhaustive enumeration of class definitions in a bounded grammar (programs) + explicit-state BFS over real SyncObj nodes running old and new code with setCodeVersion events (histories)'
ASSUME = ['grammar: object methods {a,b} and consumer methods {a}, version sets within {0,1,2}, 0-2 consumers',
          'histories: old code has version 0 only, new code versions 0 and 1 (and 2 in thorough)']

VERSETS = [vs for r in (1, 2, 3) for vs in itertools.combinations((0, 1, 2), r)]


def class_source(name, base, methods):
    """methods: dict name -> tuple of versions."""
    lines = ['class %s(%s):' % (name, base)]
    if base == 'SyncObj':
        lines += ['    def __init__(self, tr, consumers):',
                  '        SyncObj.__init__(self, "n1:1", [], CONF(), consumers=consumers, transport=tr)']
    else:
        lines += ['    def __init__(self):', '        SyncObjConsumer.__init__(self)']
    for m in sorted(methods):
        for v in methods[m]:
            lines += ['    @replicated(ver=%d)' % v, '    def %s(self, x=None):' % m, '        return (%r, %r, %d)' % (name, m, v)]
    if not any(methods.values()):
        lines += ['    pass']
    return '\n'.join(lines) + '\n'


def id_table(shape):
    """shape: (objmethods, [consumer methods...]) -> list indexed by method id of (owner, name, ver)."""
    from mc import cluster
    from pysyncobj import SyncObj, SyncObjConf, SyncObjConsumer, replicated
    objm, cons = shape
    ns = dict(SyncObj=SyncObj, SyncObjConsumer=SyncObjConsumer, replicated=replicated,
              CONF=lambda: SyncObjConf(autoTick=False))
    src = class_source('Obj', 'SyncObj', objm)
    for i, cm in enumerate(cons):
        src += class_source('Cons%d' % i, 'SyncObjConsumer', cm)
    exec(compile(src, '<c17>', 'exec'), ns)
    consumers = [ns['Cons%d' % i]() for i in range(len(cons))]
    so = ns['Obj'](cluster.SimTransport('n1:1'), consumers)
    out = []
    for mid in sorted(so._idToMethod):
        meth = so._idToMethod[mid]
        owner = 0 if meth.__self__ is so else 1 + consumers.index(meth.__self__)
        r = meth(_doApply=True)
        out.append((owner, r[1], r[2], meth.__func__.__name__))
    assert sorted(so._idToMethod) == list(range(len(out)))
    return out


def dispatch_check(shape, enabled=(0, 1, 2)):
    """For every enabled version e: a call by name must be encoded with the id of the newest
    implementation whose version is <= e; a name with no such implementation is not callable."""
    import pickle
    from mc import cluster, seams
    from pysyncobj import SyncObj, SyncObjConf, SyncObjConsumer, replicated
    objm, cons = shape
    ns = dict(SyncObj=SyncObj, SyncObjConsumer=SyncObjConsumer, replicated=replicated,
              CONF=lambda: SyncObjConf(autoTick=False))
    src = class_source('Obj', 'SyncObj', objm)
    for i, cm in enumerate(cons):
        src += class_source('Cons%d' % i, 'SyncObjConsumer', cm)
    exec(compile(src, '<c17>', 'exec'), ns)
    consumers = [ns['Cons%d' % i]() for i in range(len(cons))]
    so = ns['Obj'](cluster.SimTransport('n1:1'), consumers)
    sent = []
    so._applyCommand = lambda cmd, cb, t=None: sent.append(cmd)
    owners = [so] + consumers
    n = 0
    for e in enabled:
        getattr(so, '_SyncObj__onSetCodeVersion')(e)
        for oi, meths in enumerate([objm] + list(cons)):
            for name, versions in sorted(meths.items()):
                n += 1
                want = max([v for v in versions if v <= e], default=None)
                del sent[:]
                try:
                    getattr(owners[oi], name)()
                except KeyError:
                    got = None
                else:
                    cmd = pickle.loads(sent[0])
                    fid = cmd if isinstance(cmd, int) else cmd[0]
                    meth = so._idToMethod[fid]
                    r = meth(_doApply=True)
                    got = r[2]
                    if meth.__self__ is not owners[oi] or r[1] != name:
                        return n, 'C17 class %r, enabled version %d: call of %s.%s is encoded as %r' % (shape, e, r[0], name, r)
                if got != want:
                    return n, ('C17 class %r, enabled version %d: a call of method %r of owner %d uses the implementation of version %r; '
                               'the newest implementation not above the enabled version is %r' % (shape, e, name, oi, got, want))
    return n, None


def all_method_maps(names):
    opts = [None] + VERSETS
    for combo in itertools.product(opts, repeat=len(names)):
        yield {n: c for n, c in zip(names, combo) if c is not None}


def extensions(shape):
    """All shapes `new` obtained from `shape` by adding, to existing or new methods on existing
    owners, only versions higher than every version present anywhere in `shape`."""
    objm, cons = shape
    allv = [v for m in [objm] + list(cons) for vs in m.values() for v in vs]
    top = max(allv) if allv else -1
    higher = [v for v in (0, 1, 2) if v > top]
    addsets = [()] + [vs for r in range(1, len(higher) + 1) for vs in itertools.combinations(higher, r)]
    slots = [(0, n) for n in ('a', 'b')] + [(i + 1, 'a') for i in range(len(cons))]
    for combo in itertools.product(addsets, repeat=len(slots)):
        if not any(combo):
            continue
        owners = [dict(objm)] + [dict(c) for c in cons]
        for (ow, n), add in zip(slots, combo):
            if add:
                owners[ow][n] = tuple(sorted(set(owners[ow].get(n, ())) | set(add)))
        yield (owners[0], owners[1:])


def programs_job(name, max_consumers):
    t0 = time.time()
    res = core.SearchResult(name)
    cache = {}

    def table(shape):
        k = repr(shape)
        if k not in cache:
            cache[k] = id_table(shape)
        return cache[k]
    pairs = 0
    ndisp = [0]
    for ncons in range(0, max_consumers + 1):
        for objm in all_method_maps(('a', 'b')):
            for cons in itertools.product(list(all_method_maps(('a',))), repeat=ncons):
                shape = (objm, list(cons))
                old = table(shape)
                res.states += 1
                nd, bad = dispatch_check(shape)
                ndisp[0] += nd
                if bad:
                    res.violations.append(dict(msg=bad, sig='wrong-implementation-for-version', trace=[repr(shape), 'dispatch']))
                    res.transitions = pairs
                    return res
                for new_shape in extensions(shape):
                    new = table(new_shape)
                    pairs += 1
                    if [t[:3] for t in new[:len(old)]] != [t[:3] for t in old]:
                        res.violations.append(dict(
                            msg='C17 method ids change: old code %r has table %r, new code %r (only higher versions added) has %r' % (
                                shape, old, new_shape, new), sig='ids-not-prefix', trace=[repr(shape), repr(new_shape)]))
                        res.transitions = pairs
                        return res
    res.transitions = pairs
    res.outcomes = set(repr(v) for v in cache.values())
    res.samples = [[repr(shape), repr(old)]]
    res.extra.update(dict(class_shapes=res.states, old_new_pairs=pairs, dispatch_cases=ndisp[0], distinct_id_tables=len(res.outcomes)))
    res.wall_s = time.time() - t0
    return res


SPARSE = (0, 1, 2, 3, 5, 8, 9, 16, 17)


def sparse_job(name, max_size):
    """Version numbers are global to the code base, so one method usually has implementations at a few sparse
    numbers: every version set of up to max_size numbers out of SPARSE for an object method (a second object
    method and a consumer method with fixed sets next to it), every enabled version 0..18 in ascending order and
    then back in descending order."""
    t0 = time.time()
    res = core.SearchResult(name)
    enabled = tuple(range(0, 19)) + tuple(range(18, -1, -1))
    n = 0
    for r in range(1, max_size + 1):
        for vs in itertools.combinations(SPARSE, r):
            shape = ({'a': vs, 'b': (0, 1)}, [{'a': (0, 3, 17)}])
            res.states += 1
            nd, bad = dispatch_check(shape, enabled)
            n += nd
            if bad:
                res.violations.append(dict(msg=bad, sig='wrong-implementation-for-version', trace=[repr(shape), 'dispatch-sparse']))
                break
        if res.violations:
            break
    res.transitions = n
    res.outcomes = set([res.states])
    res.samples = [[repr(shape), 'enabled versions %r' % (enabled,)]]
    res.extra.update(dict(class_shapes=res.states, dispatch_cases=n))
    res.wall_s = time.time() - t0
    return res


# ---- histories -----------------------------------------------------------------------

VM = ('mc.monitors_c17', 'VersionMonitor', {})
CL = ('C01', 'C02', 'C17')


def specs(tier):
    q = tier == 'quick'
    js = [
        J('v-new3:V1S1H1', 'steady', dict(n=3, obj='vnew'), dict(V=1, S=1, H=1), dict(k=0)),
        J('v-new2:V2S1H1', 'steady', dict(n=2, obj='vnew'), dict(V=2, S=1, H=1), dict(k=0)),
        J('v-mixed3:V1S1H1', 'steady', dict(n=3, obj='vmixed'), dict(V=1, S=1, H=1), dict(k=0)),
        J('v-new3-snap:S1H2R1', 'version_snap', dict(n=3, obj='vnew'), dict(S=1, H=2, R=1)),
        J('v-new3-nosnap:S1H2R1', 'version_snap', dict(n=3, obj='vnew'), dict(S=1, H=2, R=1), dict(do_compact=False)),
        J('v-new3-journal-snap:S1H1P1', 'version_snap', dict(n=3, obj='vnew', journal='file+dump'), dict(S=1, H=1, P=1)),
        J('v-new2-hook:V1H2', 'steady', dict(n=2, obj='vnew', version_hook=True), dict(V=1, H=2), dict(k=0)),
        J('v-mixed2:V1S2H2', 'steady', dict(n=2, obj='vmixed'), dict(V=1, S=2, H=2), dict(k=0)),
        # a node with old code stopped in front of the switch: its own compaction and restart in that state
        J('v-stalled-old3:K1P1H1', 'stalled_old_code', dict(n=3, obj='vmixed', journal='file+dump'), dict(K=1, P=1, H=1)),
    ]
    if not q:
        js += [
            J('v-new3:V2S2H3K1', 'steady', dict(n=3, obj='vnew'), dict(V=2, S=2, H=3, K=1), dict(k=0)),
            J('v-mixed3:V2S2H2', 'steady', dict(n=3, obj='vmixed'), dict(V=2, S=2, H=2), dict(k=0)),
            J('v-new3-snap:S2H3R1X1', 'version_snap', dict(n=3, obj='vnew'), dict(S=2, H=3, R=1, X=1)),
        ]
    for j in js:
        j['max_states'] = 300000 if q else 2500000
    return js


def replay_programs(name, trace):
    import ast
    if trace[1] == 'dispatch':
        return dispatch_check(ast.literal_eval(trace[0]))[1]
    if trace[1] == 'dispatch-sparse':
        return dispatch_check(ast.literal_eval(trace[0]), tuple(range(0, 19)) + tuple(range(18, -1, -1)))[1]
    old_shape, new_shape = ast.literal_eval(trace[0]), ast.literal_eval(trace[1])
    old, new = id_table(old_shape), id_table(new_shape)
    if [t[:3] for t in new[:len(old)]] != [t[:3] for t in old]:
        return 'C17 method ids change: old code %r has table %r, new code %r (only higher versions added) has %r' % (
            old_shape, old, new_shape, new)
    return None


def main(tier, seed, job_filter=None):
    pj = [(programs_job, dict(name='programs:consumers<=%d' % (1 if tier == 'quick' else 2), max_consumers=1 if tier == 'quick' else 2)),
          (sparse_job, dict(name='programs:sparse-versions<=%d' % (3 if tier == 'quick' else 5), max_size=3 if tier == 'quick' else 5))]
    extra = []
    if not job_filter or 'programs' in job_filter:
        extra = core.run_jobs(pj)
    if job_filter and 'programs' in job_filter:
        rep = core.Report(PROP, tier, seed, TECH, ASSUME)
        rep.replay_fn = replay_programs
        rep.add(extra)
        return rep.finish()
    return jobs.run_cluster_check(PROP, tier, seed, specs(tier), CL, TECH, ASSUME, job_filter, extra_monitors=(VM,), extra_results=extra, extra_replay=replay_programs)


def replay_file(path):
    import json
    d = json.load(open(path))
    if d['job'].startswith('programs'):
        msg = replay_programs(d['job'], d['trace'])
        print('replay:', msg)
        if msg:
            print('VIOLATION property=%s replay=%s' % (PROP, path))
            return 1
        return 0
    return jobs.replay_file_cluster(PROP, path, [dict(s, clauses=CL, extra_monitors=(VM,)) for s in specs('thorough')])
