"""C05 - after faults stop the cluster converges. Closing runs from every state reached by the
fault-budgeted exploration (engine E1)."""
from mc import jobs
from mc.jobs import J

PROP = 'C05'
TECH = 'explicit-state BFS over real SyncObj nodes; from EVERY reached state a deterministic fair closing run (heal all / heal a bare majority, bounded virtual time) must converge'
ASSUME = ['one fair schedule per history (not all fair schedules); quiet period = 10 maximal election timeouts, then one submission per connected node and a second period',
          'per-link FIFO SimTransport; distinct fixed random() fractions per node in the closing run so that split votes resolve']
CM = ('mc.closing', 'ConvergenceMonitor', {})
SMALLB = 24


def specs(tier):
    q = tier == 'quick'
    js = [
        J('fresh2:E1H1S1X1', 'fresh', dict(n=2), dict(E=1, H=1, S=1, X=1)),
        J('fresh3:E1S1', 'fresh', dict(n=3), dict(E=1, S=1)),
        J('steady3:H1S1X1', 'steady', dict(n=3), dict(H=1, S=1, X=1)),
        J('lagging3:H1R1', 'lagging', dict(n=3), dict(H=1, R=1)),
        J('lagsnap3:H1R1', 'lagging_snap', dict(n=3), dict(H=1, R=1)),
        J('lagsnap3-chunk64:H1', 'lagging_snap', dict(n=3, chunk=64), dict(H=1)),
        J('lagsnap3-chunk64-flap:H2R2X1', 'lagging_snap', dict(n=3, chunk=64), dict(H=2, R=2, X=1)),
        J('deposed3:H1R1', 'deposed', dict(n=3), dict(H=1, R=1)),
        J('deposedsnap3:H1R1', 'deposed_snap', dict(n=3), dict(H=1, R=1)),
        J('deposed3-b24:H1R1', 'deposed', dict(n=3, batch_bytes=SMALLB), dict(H=1, R=1), dict(tail=3, newk=4)),
        J('deposed2x3-b24:H1R1', 'deposed_twice', dict(n=3, batch_bytes=SMALLB), dict(H=1, R=1)),
        J('deposed2x3:H1R1', 'deposed_twice', dict(n=3), dict(H=1, R=1)),
        J('deposed3-blackhole-fb:F1E1', 'deposed', dict(n=3, fallback=0.035), dict(F=1, E=1), dict(tail=3, newk=1, black=True)),
        J('pending3-b24:H1', 'pending', dict(n=3, batch_bytes=SMALLB), dict(H=1), dict(unrep=4)),
        J('pipeline3-b24:H1R1', 'reconnect_pipeline', dict(n=3, batch_bytes=SMALLB), dict(H=1, R=1), dict(unrep=4)),
        J('forwarded3:H1X1', 'forwarded', dict(n=3), dict(H=1, X=1)),
    ]
    if not q:
        js += [
            J('steady3:E1H1S1', 'steady', dict(n=3), dict(E=1, H=1, S=1)),
            J('deposed3:H2R2E1', 'deposed', dict(n=3), dict(H=2, R=2, E=1)),
            J('deposed3-b24:H2R2', 'deposed', dict(n=3, batch_bytes=SMALLB), dict(H=2, R=2), dict(tail=3, newk=4)),
            J('pending3-b24:H2', 'pending', dict(n=3, batch_bytes=SMALLB), dict(H=2), dict(unrep=6)),
            J('lagsnap3-chunk64:H2R1S1', 'lagging_snap', dict(n=3, chunk=64), dict(H=2, R=1, S=1)),
            J('deposed2x3-b24:H2R2', 'deposed_twice', dict(n=3, batch_bytes=SMALLB), dict(H=2, R=2)),
            J('fig8-3:E1H1R2', 'fig8', dict(n=3), dict(E=1, H=1, R=2)),
        ]
    for j in js:
        j['max_states'] = 60000 if q else 600000
    return js


def main(tier, seed, job_filter=None):
    return jobs.run_cluster_check(PROP, tier, seed, specs(tier), ('C05',), TECH, ASSUME, job_filter, extra_monitors=(CM,))


def replay_file(path):
    return jobs.replay_file_cluster(PROP, path, [dict(s, clauses=('C05',), extra_monitors=(CM,)) for s in specs('thorough')])
