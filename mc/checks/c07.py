"""C07 - votes and terms survive restarts (engine E1 over the simulated file system)."""
from mc import jobs
from mc.jobs import J

PROP = 'C07'
TECH = 'explicit-state BFS over real journaled SyncObj nodes with election timeouts, kills between steps and before every OS-visible mutation inside a step, restarts from files; ghost votes/leaders per term survive restarts'
ASSUME = ['process-kill crash model as in C06/C08', 'a vote counts as given when the response_vote message left the node']
MONS = (('mc.monitors_c06', 'TermMonitor', {}),)
CL = ('C03', 'C07')


def specs(tier):
    q = tier == 'quick'
    js = [
        J('j-voted3:E1P1R2', 'voted', dict(n=3, journal='file'), dict(E=1, P=1, R=2)),
        J('j-requested3-killvoter:E1P1R1', 'vote_requested', dict(n=3, journal='file', kill_only=('n2:1',)), dict(E=1, P=1, R=1)),
        J('j-lagging-newleader3:H1R1P1', 'lagging_newleader', dict(n=3, journal='file'), dict(H=1, R=1, P=1)),
        J('j-fresh2:E2P1R1', 'fresh', dict(n=2, journal='file'), dict(E=2, P=1, R=1)),
        J('j-fresh3:E1P1R1', 'fresh', dict(n=3, journal='file'), dict(E=1, P=1, R=1)),
        J('j-steady3:E1H1P1R1', 'steady', dict(n=3, journal='file'), dict(E=1, H=1, P=1, R=1), dict(k=1)),
        J('j-deposed3:H1R2P1', 'deposed', dict(n=3, journal='file'), dict(H=1, R=2, P=1)),
        J('jd-lagsnap3:H1R1P1J1', 'lagging_snap', dict(n=3, journal='file+dump', kill_only=('n3:1',)), dict(H=1, R=1, P=1, J=1)),
        J('jd-dumped-voted3:E1P1R1', 'dumped_voted', dict(n=3, journal='file+dump', kill_only=('n2:1',)), dict(E=1, P=1, R=1)),
        J('jd-voted2:E1P1R1K1', 'voted', dict(n=2, journal='file+dump'), dict(E=1, P=1, R=1, K=1)),
    ]
    if not q:
        js += [
            J('j-fresh3:E3P1', 'fresh', dict(n=3, journal='file'), dict(E=3, P=1)),
            J('j-fresh3:E2P2', 'fresh', dict(n=3, journal='file'), dict(E=2, P=2)),
            J('j-fresh4:E2P1', 'fresh', dict(n=4, journal='file'), dict(E=2, P=1)),
            J('j-steady3:E2H1P1', 'steady', dict(n=3, journal='file'), dict(E=2, H=1, P=1), dict(k=1)),
        ]
    for j in js:
        if j.get('max_states') is None:
            j['max_states'] = 400000 if q else 3000000
    return js


def main(tier, seed, job_filter=None):
    return jobs.run_cluster_check(PROP, tier, seed, specs(tier), CL, TECH, ASSUME, job_filter, extra_monitors=MONS)


def replay_file(path):
    return jobs.replay_file_cluster(PROP, path, [dict(s, clauses=CL, extra_monitors=MONS) for s in specs('thorough')])
