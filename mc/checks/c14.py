"""C14 - the real TCP transport keeps one live connection per peer and reports it truthfully.

Engine E2: real TCPTransport + TcpServer + TcpConnection objects on simulated sockets
(mc.simsock) with an explorer-driven poller and one virtual clock. The transport is attached to
a stub that offers only what TCPTransport uses from a SyncObj (conf, _poller, encryptor,
addOnTickCallback), so traffic is harness-generated numbered probes.
"""
import copy
import errno
import pickle
import struct
import zlib

from mc import core, seams, simsock

PROP = 'C14'
TECH = 'explicit-state BFS over real TCPTransport/TcpServer/TcpConnection objects on simulated sockets: connection-level faults (refuse, reset, silence, host without route: connect() fails synchronously, peer process replaced, simultaneous dial-in), poll events, virtual time steps and probes as events; closing run from every state'
ASSUME = ['simulated non-blocking sockets and level-triggered poll (mc/simsock.py) are the trusted base',
          'whole-buffer transfers (byte-level fragmentation is C13)',
          'a black-holed connect attempt is eventually refused by the OS (connect timeout)',
          'one common virtual clock for all processes']

READ, WRITE, ERROR = 1, 2, 4
CUR = [None]      # index of the node whose code is running (socket ownership)
RETRY = 5.0
TIMEOUT = 3.5


def addr(i):
    return '10.0.0.%d:%d' % (i + 1, i + 1)


class Stub(object):
    """What TCPTransport needs from a SyncObj."""

    def __init__(self, poller):
        from pysyncobj import SyncObjConf
        self.conf = SyncObjConf(connectionRetryTime=RETRY, connectionTimeout=TIMEOUT, raftMaxTimeout=1.4, sendBufferSize=4096,
                                recvBufferSize=4096, bindRetryTime=1.0)
        self._poller = poller
        self.encryptor = None
        self.cbs = []

    def addOnTickCallback(self, cb):
        self.cbs.append(cb)

    def tick(self):
        for cb in self.cbs:
            cb()


class Rec(object):
    def __init__(self, idx):
        self.idx = idx
        self.notif = {}       # peer id -> 'up' | 'down'
        self.got = []         # (claimed peer id, payload)
        self.ro = []          # ids of connected read-only nodes as notified
        self.ups = []         # every 'connected' notification, in order

    def on_conn(self, node):
        self.notif[node.id] = 'up'
        self.ups.append(node.id)

    def on_disc(self, node):
        self.notif[node.id] = 'down'

    def on_msg(self, node, message):
        self.got.append((node.id, message))

    def on_ro_conn(self, node):
        self.ro.append(node.id)

    def on_ro_disc(self, node):
        if node.id in self.ro:
            self.ro.remove(node.id)


class NodeCtx(object):
    pass


class W(object):
    pass


class OwnedNet(simsock.Net):
    def socket(self, *a):
        s = simsock.Net.socket(self, *a)
        s.owner = CUR[0]
        return s


def install():
    seams.install()
    simsock.install()
    import pysyncobj.dns_resolver as DR

    class FakeDnsSocket(object):
        AF_INET = 2
        gaierror = OSError

        @staticmethod
        def getaddrinfo(host, port):
            return [(2, 1, 6, '', (host, 0))]
    DR.socket = FakeDnsSocket
    DR._g_resolver = None
    import pysyncobj.transport as TR
    TR.threading = seams.DummyThreading


class TransportModel(object):
    def __init__(self, n=2, observers=0, faults=1, times=2, probes=2, restarts=0, drops=0, outsiders=0, closing_every=1,
                 ro_leaves=0, cold=False, netdowns=0, sndcap=4096, prefix=()):
        self.prefix = prefix    # scripted events applied to the settled initial state ('settle' = default schedule to quiescence); free of budget
        self.sndcap = sndcap    # socket send buffer (a small one makes ordinary messages need several writes)
        install()
        self.n = n
        self.no = observers
        self.b = dict(F=faults, T=times, P=probes, R=restarts, D=drops, O=outsiders, L=ro_leaves, N=netdowns)
        self.closing_every = closing_every
        self.closings = 0
        self.cold = cold        # start before any connection exists (default: start with all connections established)

    # ---- construction
    def make_node(self, w, i):
        from pysyncobj.transport import TCPTransport
        from pysyncobj.node import TCPNode
        CUR[0] = i
        simsock.NET[0] = w.net
        c = NodeCtx()
        c.idx = i
        c.alive = True
        c.poller = simsock.SimPoller()
        c.stub = Stub(c.poller)
        c.rec = Rec(i)
        is_ro = i >= self.n
        me = None if is_ro else TCPNode(addr(i))
        others = [TCPNode(addr(j)) for j in range(self.n) if j != i]
        c.tr = TCPTransport(c.stub, me, others)
        c.tr.setOnNodeConnectedCallback(c.rec.on_conn)
        c.tr.setOnNodeDisconnectedCallback(c.rec.on_disc)
        c.tr.setOnMessageReceivedCallback(c.rec.on_msg)
        c.tr.setOnReadonlyNodeConnectedCallback(c.rec.on_ro_conn)
        c.tr.setOnReadonlyNodeDisconnectedCallback(c.rec.on_ro_disc)
        c.tr.tryGetReady()
        return c

    def initial(self):
        w = W()
        w.net = OwnedNet(sndcap=self.sndcap)
        w.now = 1000000.0
        seams.CLOCK[0] = w.now
        w.used = dict((k, 0) for k in self.b)
        w.seq = 0
        w.sent = []           # (sender idx, receiver idx, seq, send() result)
        w.exc = None
        w.members = {i: set(range(self.n)) - {i} for i in range(self.n + self.no)}
        w.dropped = {}
        w.nodes = [self.make_node(w, i) for i in range(self.n + self.no)]
        w.gen = [0] * (self.n + self.no)
        if not self.cold:
            # seed state: every connection established by the default schedule (ticks, connects, handshakes)
            self.settle(w)
        for ev in self.prefix:
            if ev == 'settle' or ev == ('settle',):
                self.settle(w)
            else:
                self.do(w, tuple(ev))
        w.used = dict((k, 0) for k in self.b)
        return w

    # ---- canonical key
    def key(self, w):
        from mc.cluster import Canon
        c = Canon.__new__(Canon)
        c.now = w.now
        c.seen = {}
        c.cids = {}
        c.exact = True
        c.conf = None
        c.past = None
        parts = []
        for nd in w.nodes:
            if nd.alive:
                parts.append((c.walk(nd.tr), c.walk(nd.rec.__dict__), nd.poller.key()))
            else:
                parts.append(None)
        return core.digest((parts, w.net.key(), sorted(w.used.items()), w.seq, w.sent, sorted((k, sorted(v)) for k, v in w.members.items()), sorted(w.dropped.items()),
                            tuple(sorted((fd, getattr(s, 'owner', None)) for fd, s in w.net.sockets.items() if s.state != 'closed'))))

    def outcome(self, w):
        return tuple(tuple(sorted(nd.rec.notif.items())) for nd in w.nodes)

    # ---- events
    def ready_mask(self, s, mask):
        m = 0
        if s.state == 'listening':
            if s.backlog and mask & READ:
                m |= READ
            return m
        if s.state == 'connecting':
            if s.err:
                m |= (mask & (READ | WRITE)) | (mask & ERROR)
            return m
        if s.state == 'connected':
            if (s.rcv or s.eof_ready() or s.err) and mask & READ:
                m |= READ
            if len(s.out) < s.cap and mask & WRITE:
                m |= WRITE
            if s.err and mask & ERROR:
                m |= ERROR
        return m

    def events(self, w, closing=False):
        evs = []
        net = w.net
        for fd in list(net.pending_connects):
            s = net.sockets[fd]
            port = s.addr[1]
            lst = net.listeners.get(port)
            if lst is not None and not s.err:
                evs.append(('conn_ok', fd))
            if not s.err and (lst is None or (not closing and w.used['F'] < self.b['F'])):
                evs.append(('conn_refuse', fd, lst is None))
        for fd, s in sorted(net.sockets.items()):
            if s.out and (s.state == 'connected' or s.state == 'closed') and not s.blackhole:
                # on a silent link nothing is acknowledged: the bytes stay in the sender's buffer (TCP keeps
                # retransmitting) and arrive intact if the silence ends, never with a hole in the stream
                evs.append(('xfer', fd))
        for nd in w.nodes:
            if not nd.alive:
                continue
            for fd, (cb, mask) in sorted(nd.poller.subs.items()):
                s = net.sockets.get(fd)
                if s is None or s.state == 'closed' or getattr(s, 'owner', None) != nd.idx:
                    continue
                m = self.ready_mask(s, mask)
                if m:
                    evs.append(('poll', nd.idx, fd, m))
            evs.append(('tick', nd.idx))
        if closing:
            return evs
        if w.used['T'] < self.b['T']:
            for dt in (0.5, TIMEOUT + 0.1, RETRY + 0.1):
                evs.append(('time', dt))
        if w.used['P'] < self.b['P']:
            for a in w.nodes:
                if not a.alive:
                    continue
                for b in range(self.n):
                    if b != a.idx and b in w.members[a.idx]:
                        evs.append(('probe', a.idx, b))
                if a.idx < self.n:
                    for rid in a.rec.ro:
                        evs.append(('probe_ro', a.idx, rid))
        if w.used['F'] < self.b['F']:
            seen = set()
            for fd, s in sorted(net.sockets.items()):
                if s.state == 'connected' and s.peer is not None and (s.peer, fd) not in seen:
                    seen.add((fd, s.peer))
                    evs.append(('reset', fd))
                    if not s.blackhole:
                        evs.append(('silence', fd))
            # accept(2): the listener is reported readable but the pending connection has gone by the time accept()
            # is called (withdrawn / reset in between, or a spurious wake-up): accept() answers EAGAIN
            for nd in w.nodes:
                if not nd.alive:
                    continue
                for fd, (cb, mask) in sorted(nd.poller.subs.items()):
                    s = net.sockets.get(fd)
                    if s is not None and s.state == 'listening' and not s.backlog and getattr(s, 'owner', None) == nd.idx and mask & READ:
                        evs.append(('wake', nd.idx, fd))
            for fd, s in sorted(net.sockets.items()):
                if s.state == 'connected' and s.peer is not None and not s.fail_next_send and not s.err and \
                        isinstance(getattr(s, 'owner', None), int) and w.nodes[s.owner].alive:
                    evs.append(('sendfail', fd))
        if w.used['R'] < self.b['R']:
            for nd in w.nodes:
                if nd.alive and nd.idx < self.n:
                    evs.append(('restart', nd.idx))
        for nd in w.nodes:
            if nd.alive and nd.idx < self.n:
                if nd.idx in net.unreachable:
                    evs.append(('netup', nd.idx))
                elif w.used['N'] < self.b['N']:
                    evs.append(('netdown', nd.idx))
        if w.used['L'] < self.b['L']:
            for nd in w.nodes:
                if nd.alive and nd.idx >= self.n:
                    evs.append(('ro_leave', nd.idx))
                elif not nd.alive and nd.idx >= self.n:
                    evs.append(('ro_join', nd.idx))
        if w.used['D'] < self.b['D']:
            for a in range(self.n):
                for b in range(self.n):
                    if a != b and w.nodes[a].alive:
                        evs.append(('drop', a, b) if b in w.members[a] else ('add', a, b))
        if w.used['O'] < self.b['O']:
            for a in range(self.n):
                if w.nodes[a].alive:
                    evs.append(('outsider', a))
        return evs

    def apply(self, w0, ev):
        w = copy.deepcopy(w0)
        return self.do(w, ev)

    def do(self, w, ev):
        simsock.NET[0] = w.net
        seams.CLOCK[0] = w.now
        net = w.net
        k = ev[0]
        try:
            if k == 'conn_ok':
                c = net.sockets[ev[1]]
                lst = net.sockets[net.listeners[c.addr[1]]]
                CUR[0] = lst.owner
                s2 = net.socket()
                s2.state = 'connected'
                c.state = 'connected'
                c.peer, s2.peer = s2.fd, c.fd
                net.pending_connects.remove(c.fd)
                lst.backlog.append(s2.fd)
            elif k == 'conn_refuse':
                c = net.sockets[ev[1]]
                if not ev[2]:
                    w.used['F'] += 1
                c.err = errno.ECONNREFUSED
                net.pending_connects.remove(c.fd)
            elif k == 'xfer':
                s = net.sockets[ev[1]]
                net.transfer(ev[1], len(s.out))
            elif k == 'poll':
                nd = w.nodes[ev[1]]
                CUR[0] = nd.idx
                nd.poller.dispatch(ev[2], ev[3])
            elif k == 'wake':
                w.used['F'] += 1
                nd = w.nodes[ev[1]]
                CUR[0] = nd.idx
                nd.poller.dispatch(ev[2], READ)
            elif k == 'tick':
                nd = w.nodes[ev[1]]
                CUR[0] = nd.idx
                nd.stub.tick()
            elif k == 'time':
                w.used['T'] += 1
                w.now += ev[1]
                seams.CLOCK[0] = w.now
            elif k == 'probe' or k == 'probe_ro':
                from pysyncobj.node import TCPNode, Node
                nd = w.nodes[ev[1]]
                CUR[0] = nd.idx
                w.used['P'] += 1
                w.seq += 1
                target = TCPNode(addr(ev[2])) if k == 'probe' else Node(ev[2])
                res = nd.tr.send(target, ('probe', nd.idx, w.seq))
                w.sent.append((nd.idx, ev[2], w.seq, bool(res)))
            elif k == 'reset':
                w.used['F'] += 1
                s = net.sockets[ev[1]]
                p = net.sockets[s.peer]
                for x in (s, p):
                    x.err = errno.ECONNRESET
                    x.rcv = bytearray()
                    x.out = bytearray()
            elif k == 'sendfail':
                # the connection is reset at the very moment of the owner's next send(): poll has not reported anything
                w.used['F'] += 1
                net.sockets[ev[1]].fail_next_send = True
            elif k == 'silence':
                w.used['F'] += 1
                s = net.sockets[ev[1]]
                p = net.sockets[s.peer]
                s.blackhole = p.blackhole = True
            elif k == 'netdown':
                # the host loses its route: established connections go silent, new connect() calls fail at once
                w.used['N'] += 1
                net.unreachable.add(ev[1])
                for s in net.sockets.values():
                    if getattr(s, 'owner', None) == ev[1] and s.state == 'connected' and s.peer is not None:
                        s.blackhole = True
                        net.sockets[s.peer].blackhole = True
            elif k == 'netup':
                net.unreachable.discard(ev[1])
            elif k == 'restart':
                w.used['R'] += 1
                self.vanish(w, ev[1])
                w.gen[ev[1]] += 1
                w.members[ev[1]] = set(range(self.n)) - {ev[1]}
                w.nodes[ev[1]] = self.make_node(w, ev[1])
            elif k == 'ro_leave':
                w.used['L'] += 1
                nd = w.nodes[ev[1]]
                CUR[0] = nd.idx
                nd.tr.destroy()
                nd.alive = False
            elif k == 'ro_join':
                w.nodes[ev[1]] = self.make_node(w, ev[1])
            elif k == 'drop' or k == 'add':
                from pysyncobj.node import TCPNode
                w.used['D'] += 1
                nd = w.nodes[ev[1]]
                CUR[0] = nd.idx
                if k == 'drop':
                    nd.tr.dropNode(TCPNode(addr(ev[2])))
                    w.members[ev[1]].discard(ev[2])
                    w.dropped[(ev[1], ev[2])] = (len(nd.rec.got), len(nd.rec.ups))
                else:
                    nd.tr.addNode(TCPNode(addr(ev[2])))
                    w.members[ev[1]].add(ev[2])
                    w.dropped.pop((ev[1], ev[2]), None)
            elif k == 'outsider':
                w.used['O'] += 1
                CUR[0] = 'outsider'
                s = net.socket()
                s.addr = ('10.0.0.%d' % (ev[1] + 1), ev[1] + 1)
                s.state = 'connecting'
                net.pending_connects.append(s.fd)
                data = zlib.compress(pickle.dumps('9.9.9.9:9', 2), 3)
                s.out += struct.pack('i', len(data)) + data
                data = zlib.compress(pickle.dumps(('probe', 'outsider', 0), 2), 3)
                s.out += struct.pack('i', len(data)) + data
            else:
                raise core.HarnessError(ev)
        except core.HarnessError:
            raise
        except Exception as e:
            import traceback
            raise core.Violation('C14 exception escaped %r: %s: %s (%s)' % (ev, type(e).__name__, e,
                                                                          traceback.format_exc().strip().splitlines()[-3].strip()),
                                 sig='exception-escapes')
        return w

    def vanish(self, w, idx):
        """The process dies without a word: its sockets disappear, peers see silence."""
        for fd, s in w.net.sockets.items():
            if getattr(s, 'owner', None) == idx and s.state != 'closed':
                if s.state == 'listening':
                    w.net.listeners.pop(s.addr[1], None)
                if fd in w.net.pending_connects:
                    w.net.pending_connects.remove(fd)
                p = w.net.sockets.get(s.peer) if s.peer is not None else None
                if p is not None:
                    p.blackhole = True
                    p.peer = None
                s.state = 'closed'
                s.out = bytearray()

    # ---- oracles
    def check(self, w, closing=False):
        from pysyncobj.tcp_connection import CONNECTION_STATE
        for nd in w.nodes:
            if not nd.alive:
                continue
            seenp = set()
            for (a, b), (ngot, nups) in w.dropped.items():
                if a == nd.idx:
                    if any(c == addr(b) for c, m in nd.rec.got[ngot:]):
                        return core.Violation('C14 node %d delivered a message as coming from %s after it had removed that node' % (a, addr(b)),
                                              sig='removed-node-delivered')
                    if addr(b) in nd.rec.ups[nups:]:
                        return core.Violation('C14 node %d reported %s connected after it had removed that node' % (a, addr(b)),
                                              sig='removed-node-connected')
            for claimed, msg in nd.rec.got:
                if not (isinstance(msg, tuple) and msg and msg[0] == 'probe'):
                    return 'C14 node %d received a non-probe message %r from %r' % (nd.idx, msg, claimed)
                sender, seq = msg[1], msg[2]
                if sender == 'outsider':
                    return core.Violation('C14 node %d delivered a message of a non-member (outsider) as coming from %r' % (nd.idx, claimed),
                                          sig='non-member-delivered')
                if (sender, seq) in seenp:
                    return core.Violation('C14 node %d received probe %r of node %r twice' % (nd.idx, seq, sender), sig='delivered-twice')
                seenp.add((sender, seq))
                if sender < self.n and claimed != addr(sender):
                    return core.Violation('C14 node %d received probe %d sent by %s as coming from %r' % (nd.idx, seq, addr(sender), claimed),
                                          sig='wrong-source')
                # the probe must have been addressed to this node
                dest = [x for x in w.sent if x[0] == sender and x[2] == seq]
                if dest and nd.idx < self.n and dest[0][1] != nd.idx:
                    return core.Violation('C14 probe %d of node %r addressed to %r arrived at node %d' % (seq, sender, dest[0][1], nd.idx),
                                          sig='wrong-destination')
            if nd.idx < self.n:
                for b in range(self.n):
                    if b == nd.idx:
                        continue
                    conn = None
                    for node, cc in nd.tr._connections.items():
                        if node.id == addr(b):
                            conn = cc
                    up = conn is not None and conn.state == CONNECTION_STATE.CONNECTED
                    last = nd.rec.notif.get(addr(b), 'down')
                    if up and b in w.members[nd.idx]:
                        # "connected" means messages can be exchanged: the descriptor behind an established
                        # TcpConnection has completed its handshake
                        sk = getattr(conn, '_TcpConnection__socket', None)
                        if sk is not None and getattr(sk, 'state', 'connected') == 'connecting':
                            return core.Violation('C14 node %d reports %s connected (send() returns True) while the handshake of that '
                                                  'connection attempt has not completed' % (nd.idx, addr(b)), sig='connected-before-handshake')
                    if b in w.members[nd.idx] and up != (last == 'up'):
                        return core.Violation('C14 node %d: last notification about %s is %r but its connection to it is %s' % (
                            nd.idx, addr(b), last, 'established (send() works)' if up else 'not established (send() fails)'),
                            sig='notification-mismatch')
        if closing or self.closing_every <= 0:
            return None
        if self.closing_every > 1 and int.from_bytes(self.key(w)[:4], 'big') % self.closing_every:
            return None
        return self.closing(w)

    def closing(self, w0):
        """Faults cease: heal, then a fair schedule for connectionTimeout + connectionRetryTime + slack
        of virtual time with periodic probes; every member pair must end with exactly one working
        connection that both sides reported, and a probe each way must arrive."""
        self.closings += 1
        w = copy.deepcopy(w0)
        w.net.unreachable.clear()
        for s in w.net.sockets.values():
            # silence ends only for connections whose both ends still exist
            if s.blackhole and s.peer is not None and w.net.sockets[s.peer].state != 'closed':
                s.blackhole = False
        horizon = TIMEOUT + RETRY + 2.0
        steps = int(horizon / 0.5) + 2
        try:
            for it in range(steps):
                self.settle(w)
                self.do(w, ('time', 0.5))
                w.used['T'] -= 1
                # traffic in both directions on every connection, like heartbeats and their answers
                for a in w.nodes:
                    if a.alive:
                        for b in range(self.n):
                            if b != a.idx and b in w.members[a.idx] and w.nodes[b].alive:
                                self.do(w, ('probe', a.idx, b))
                                w.used['P'] -= 1
                        if a.idx < self.n:
                            for rid in list(a.rec.ro):
                                self.do(w, ('probe_ro', a.idx, rid))
                                w.used['P'] -= 1
                self.settle(w)
            # final round of probes after everything had time to heal
            self.settle(w)
            first = w.seq
            for a in w.nodes:
                if a.alive and a.idx < self.n:
                    for b in range(self.n):
                        if b != a.idx and b in w.members[a.idx] and a.idx in w.members[b] and w.nodes[b].alive:
                            self.do(w, ('probe', a.idx, b))
                    for rid in list(a.rec.ro):
                        self.do(w, ('probe_ro', a.idx, rid))
            self.settle(w)
        except core.Violation as v:
            return core.Violation('C14 during closing run: %s' % v.msg, sig=v.sig)
        v = self.check(w, closing=True)
        if v:
            return core.Violation('C14 during closing run: %s' % (v.msg if isinstance(v, core.Violation) else v), sig=getattr(v, 'sig', None))
        for x in w.sent:
            if x[2] > first:
                a, b, seq, ok = x
                if isinstance(b, int):
                    got = [m for c, m in w.nodes[b].rec.got if m[1] == a and m[2] == seq]
                    if not ok or not got:
                        return core.Violation('C14 %.1f s after the faults stopped node %d still cannot reach node %d (send() returned %r, probe %s)' % (
                            horizon, a, b, ok, 'arrived' if got else 'did not arrive'), sig='no-reconnect')
                else:
                    got = [nd.idx for nd in w.nodes if nd.alive and nd.idx >= self.n and any(m[1] == a and m[2] == seq for c, m in nd.rec.got)]
                    if len(got) != 1:
                        return core.Violation('C14 probe of node %d to its read-only peer %r reached read-only nodes %r' % (a, b, got),
                                              sig='readonly-probe-lost')
        # every connected read-only node is known to, and reachable from, each voter exactly once
        for a in w.nodes:
            if a.alive and a.idx < self.n:
                nro = sum(1 for nd in w.nodes if nd.alive and nd.idx >= self.n)
                if len(a.rec.ro) != nro:
                    return core.Violation('C14 voter %d tracks %d read-only peers, %d are running and had time to connect' % (a.idx, len(a.rec.ro), nro),
                                          sig='readonly-count')
                if len(set(a.rec.ro)) != len(a.rec.ro):
                    return core.Violation('C14 voter %d knows two read-only peers under the same id %r' % (a.idx, a.rec.ro), sig='readonly-id-reused')
        # exactly one established connection per member pair
        for a in range(self.n):
            for b in range(a + 1, self.n):
                if not (w.nodes[a].alive and w.nodes[b].alive and b in w.members[a] and a in w.members[b]):
                    continue
                pairs = [(fd, s.peer) for fd, s in w.net.sockets.items() if s.state == 'connected' and getattr(s, 'owner', None) == a and
                         s.peer is not None and getattr(w.net.sockets[s.peer], 'owner', None) == b and w.net.sockets[s.peer].state == 'connected']
                if len(pairs) != 1:
                    return core.Violation('C14 %.1f s after the faults stopped nodes %d and %d have %d established connections' % (
                        horizon, a, b, len(pairs)), sig='not-one-connection')
        return None

    def settle(self, w, limit=400):
        for _ in range(limit):
            evs = [e for e in self.events(w, closing=True) if e[0] not in ('tick', 'conn_refuse') or (e[0] == 'conn_refuse' and e[2])]
            if not evs:
                break
            self.do(w, evs[0])
        else:
            raise core.Violation('event storm: no quiescence after %d events' % limit, sig='storm')
        for nd in w.nodes:
            if nd.alive:
                self.do(w, ('tick', nd.idx))
        for _ in range(limit):
            evs = [e for e in self.events(w, closing=True) if e[0] not in ('tick', 'conn_refuse') or (e[0] == 'conn_refuse' and e[2])]
            if not evs:
                return
            self.do(w, evs[0])
        raise core.Violation('event storm: no quiescence after %d events' % limit, sig='storm')


def job(name, max_states=None, **kw):
    m = TransportModel(**kw)
    res = core.bfs(m, name=name, known=core.KnownFindings(), prop=PROP, max_states=max_states)
    res.extra['closing_runs'] = m.closings
    res.extra['params'] = kw
    res.samples = [[list(e) for e in s] for s in res.samples]
    for v in res.violations:
        v['trace'] = [list(e) for e in v['trace']]
    return res


def jobs_for(tier):
    q = tier == 'quick'
    cap = 25000 if q else 400000
    js = [
        ('tr2-cold:F1T1P1', dict(n=2, faults=1, times=1, probes=1, closing_every=3, cold=True)),
        ('tr2:F1T1P1', dict(n=2, faults=1, times=1, probes=1, closing_every=3)),
        ('tr2:F2T1', dict(n=2, faults=2, times=1, probes=0, closing_every=4)),
        ('tr2:R1T1P1', dict(n=2, faults=0, times=1, probes=1, restarts=1, closing_every=4)),
        ('tr2:D1T1P1', dict(n=2, faults=0, times=1, probes=1, drops=1, closing_every=4)),
        ('tr2:D2T1', dict(n=2, faults=0, times=1, probes=0, drops=2, closing_every=3)),
        ('tr2-cold:D1P1', dict(n=2, faults=0, times=0, probes=1, drops=1, closing_every=4, cold=True)),
        ('tr2-cold:N1T1', dict(n=2, faults=0, times=1, probes=0, netdowns=1, closing_every=2, cold=True)),
        ('tr2:N1T2', dict(n=2, faults=0, times=2, probes=0, netdowns=1, closing_every=3)),
        ('tr2-smallbuf:F1T1P1', dict(n=2, faults=1, times=1, probes=1, closing_every=3, sndcap=16)),
        # a connection older than connectionRetryTime that is kept alive by traffic (so a disconnect is followed by an
        # immediate new attempt), every message needing several writes
        ('tr2-smallbuf-old:F1P1', dict(n=2, faults=1, times=0, probes=1, closing_every=2, sndcap=16,
                                       prefix=(('time', 3.0), ('probe', 0, 1), 'settle', ('probe', 1, 0), 'settle', ('time', 3.0)))),
        ('tr2:O1P1', dict(n=2, faults=0, times=0, probes=1, outsiders=1, closing_every=4)),
        ('tr3:F1', dict(n=3, faults=1, times=0, probes=0, closing_every=6)),
        ('tr1+ro2:L2P1', dict(n=1, observers=2, faults=0, times=0, probes=1, ro_leaves=2, closing_every=2)),
        ('tr2+ro1:F1P1', dict(n=2, observers=1, faults=1, times=0, probes=1, closing_every=6)),
    ]
    if not q:
        js += [('tr2:F2T2P1R1', dict(n=2, faults=2, times=2, probes=1, restarts=1, closing_every=4)),
               ('tr3:F2T1', dict(n=3, faults=2, times=1, probes=0, closing_every=8)),
               ('tr2+ro2:L2F1P1', dict(n=2, observers=2, faults=1, times=1, probes=1, ro_leaves=2, closing_every=6))]
    return [(n, dict(kw, max_states=cap)) for n, kw in js]


def replay_trace(jobname, trace):
    table = dict(jobs_for('quick') + jobs_for('thorough'))
    kw = dict(table[jobname])
    kw.pop('max_states', None)
    m = TransportModel(**kw)
    msg, _ = core.replay(m, [tuple(e) for e in trace])
    return msg


def main(tier, seed, job_filter=None):
    rep = core.Report(PROP, tier, seed, TECH, ASSUME)
    js = [(job, dict(name=n, **kw)) for n, kw in jobs_for(tier) if not job_filter or job_filter in n]
    rep.replay_fn = replay_trace
    rep.add(core.run_jobs(js))
    rep.extra['closing_runs'] = sum(r.extra.get('closing_runs', 0) for r in rep.results)
    return rep.finish()


def replay_file(path):
    import json
    d = json.load(open(path))
    msg = replay_trace(d['job'], d['trace'])
    print('replay:', msg)
    if msg:
        print('VIOLATION property=%s replay=%s' % (PROP, path))
        return 1
    return 0
