"""C06 - a journaled node restarts without forgetting anything it acknowledged (engine E1 over
the simulated file system; kill before every OS-visible mutation of every step, and between
steps)."""
from mc import jobs
from mc.jobs import J

PROP = 'C06'
TECH = 'explicit-state BFS over real SyncObj nodes with file journals on a simulated file system; kill events between any two steps and before every OS-visible mutation inside a step (journal record, header offset, .meta tmp/move, dump tmp/rename); restart from the files'
ASSUME = ['process-kill crash model (mutations handed to the OS survive; Python-level file buffers are lost; no torn stores)',
          'what a dead node still "stores" for majority purposes = what a trial restart recovers from its files',
          'restarts are free, kills are budgeted (P); peers notice a dead/restarted peer without budget']
MONS = (('mc.monitors_c06', 'DurabilityMonitor', {}),)
CL = ('C01', 'C02', 'C03', 'C04', 'C06')


def specs(tier):
    q = tier == 'quick'
    js = [
        J('j-steady2:H1S1P1J1', 'steady', dict(n=2, journal='file'), dict(H=1, S=1, P=1, J=1)),
        J('j-steady3:H1S1P1', 'steady', dict(n=3, journal='file'), dict(H=1, S=1, P=1)),
        J('j-steady2-compact:H1S1P1K1', 'steady', dict(n=2, journal='file'), dict(H=1, S=1, P=1, K=1), dict(k=2)),
        J('j-steady2:H2S1P2', 'steady', dict(n=2, journal='file'), dict(H=2, S=1, P=2)),
        J('jd-steady2:H1S1P1K1', 'steady', dict(n=2, journal='file+dump'), dict(H=1, S=1, P=1, K=1), dict(k=2)),
        J('jd-steady2:H2P2K1', 'steady', dict(n=2, journal='file+dump'), dict(H=2, P=2, K=1), dict(k=2)),
        J('jd-fork-steady2-childkill:H1K1Q1P1', 'steady', dict(n=2, journal='file+dump', use_fork=True), dict(H=1, K=1, Q=1, P=1), dict(k=3)),
        J('jd-lagsnap3-chunk64-sendfault:H2R2X1P1', 'lagging_snap', dict(n=3, journal='file+dump', chunk=64, send_faults=True, kill_only=('n3:1',)),
          dict(H=2, R=2, X=1, P=1), clauses=CL + ('C09',)),
        # the follower's own (inline) compaction is collected one tick later; a snapshot close to its own dump position is
        # installed in between
        J('jd-lagsnap3-owncompact:H1R1K1P1', 'lagging_snap', dict(n=3, journal='file+dump', kill_only=('n3:1',)),
          dict(H=1, R=1, K=1, P=1), dict(after=1)),
        J('jd-lagsnap3:H2R1P1', 'lagging_snap', dict(n=3, journal='file+dump'), dict(H=2, R=1, P=1)),
        J('jd-lagsnap3-after2:H3R1P1', 'lagging_snap', dict(n=3, journal='file+dump'), dict(H=3, R=1, P=1), dict(j=3, after=2)),
        J('jd-lagsnap2-chunk64:H2R1P1', 'lagging_snap', dict(n=2, journal='file+dump', chunk=64), dict(H=2, R=1, P=1)),
        J('j-pending3-b24:H2P1', 'pending', dict(n=3, journal='file', batch_bytes=24), dict(H=2, P=1), dict(unrep=4)),
        J('j-pending2-b24:H1P1J1', 'pending', dict(n=2, journal='file', batch_bytes=24, kill_only=('n1:1',)), dict(H=1, P=1, J=1), dict(unrep=4)),
        J('j-deposed3:H1R1P1', 'deposed', dict(n=3, journal='file'), dict(H=1, R=1, P=1)),
    ]
    if not q:
        js += [
            J('j-steady3:H2S1P2J1', 'steady', dict(n=3, journal='file'), dict(H=2, S=1, P=2, J=1)),
            J('jd-steady3:H2S1P2K1', 'steady', dict(n=3, journal='file+dump'), dict(H=2, S=1, P=2, K=1), dict(k=2)),
            J('jd-steady2:H2S1P3K1', 'steady', dict(n=2, journal='file+dump'), dict(H=2, S=1, P=3, K=1), dict(k=2)),
            J('jd-deposedsnap3:H2R1P1', 'deposed_snap', dict(n=3, journal='file+dump'), dict(H=2, R=1, P=1)),
        ]
    for j in js:
        j['max_states'] = 300000 if q else 2500000
    return js


def main(tier, seed, job_filter=None):
    return jobs.run_cluster_check(PROP, tier, seed, specs(tier), CL, TECH, ASSUME, job_filter, extra_monitors=MONS)


def replay_file(path):
    return jobs.replay_file_cluster(PROP, path, [dict({'clauses': CL, 'extra_monitors': MONS}, **s) for s in specs('thorough')])
