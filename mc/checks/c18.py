"""C18 - read-only nodes follow but never influence the cluster (engine E1)."""
from mc import jobs
from mc.jobs import J

PROP = 'C18'
TECH = 'explicit-state BFS over real SyncObj nodes including 1-3 nodes without own address that connect, disconnect and re-join; safety monitors with voters-only majorities + closing runs'
ASSUME = ['observers dial every voter; a voter numbers its observers by a counter like the TCP transport does',
          'majorities in the oracle count voters only, so an implementation that counted an observer shows up as a commit or election without a voter majority']
MONS = (('mc.monitors', 'ObserverMonitor', {}),
        ('mc.closing', 'ConvergenceMonitor', dict(prop='C18', variants=('all',), every=7)))
CL = ('C01', 'C02', 'C03', 'C04', 'C18')
DYN = (('mc.monitors_c10', 'MembershipMonitor', {}), ('mc.monitors', 'ExceptionMonitor', dict(prop='C18')))


def specs(tier):
    q = tier == 'quick'
    js = [
        J('fresh2+1:E1H1S1X1', 'fresh', dict(n=2, observers=1), dict(E=1, H=1, S=1, X=1)),
        J('steady2+2:H1S1X2R1', 'steady', dict(n=2, observers=2), dict(H=1, S=1, X=2, R=1), dict(k=1)),
        J('steady3+1:H1S1X1', 'steady', dict(n=3, observers=1), dict(H=1, S=1, X=1), dict(k=1)),
        J('steady2+1-novotermajority:H2S1X2', 'steady', dict(n=2, observers=1), dict(H=2, S=1, X=2), dict(k=0)),
        J('lagsnap2+1:H2R1', 'lagging_snap', dict(n=2, observers=1), dict(H=2, R=1), dict(lag='o1')),
        J('lagsnap3+1-chunk64:H2R1', 'lagging_snap', dict(n=3, observers=1, chunk=64), dict(H=2, R=1), dict(lag='o1')),
        J('deposed-obs3+1:H1', 'deposed_obs', dict(n=3, observers=1), dict(H=1)),
        # the connection to a read-only node breaks inside the leader's send call (several messages per call: chunks)
        J('pending2+1-b8-sendfault:H1X1', 'pending', dict(n=2, observers=1, batch_bytes=8, send_faults=True), dict(H=1, X=1), dict(unrep=1),
          extra_monitors=(MONS[0], ('mc.monitors', 'ExceptionMonitor', dict(prop='C18')))),
        J('fresh2+1-nowait:S1E1H1', 'fresh', dict(n=2, observers=1, wait_leader=False), dict(S=1, E=1, H=1)),
        J('fresh2+3:E1', 'fresh', dict(n=2, observers=3), dict(E=1)),
        # membership changes while a read-only node follows: it replays the add/remove entries like any follower;
        # and a snapshot taken while a read-only node is connected must not list it as a member
        J('m-steady2+1+spare:M1H1S1', 'steady', dict(n=2, observers=1, dyn=True, spare=1), dict(M=1, H=1, S=1), dict(k=0),
          clauses=CL + ('C10',), extra_monitors=MONS[:1] + DYN),
        J('m-lagsnap3+1:H2R1', 'lagging_snap', dict(n=3, observers=1, dyn=True), dict(H=2, R=1),
          clauses=CL + ('C10',), extra_monitors=MONS[:1] + DYN),
        J('m-journal-steady2+1:K1P1H2', 'steady', dict(n=2, observers=1, dyn=True, journal='file+dump'), dict(K=1, P=1, H=2), dict(k=1),
          clauses=CL + ('C10',), extra_monitors=MONS[:1] + DYN),
    ]
    if not q:
        js += [
            J('fresh3+1:E1H1S1', 'fresh', dict(n=3, observers=1), dict(E=1, H=1, S=1)),
            J('m-steady2+1+spare:M1H2S1', 'steady', dict(n=2, observers=1, dyn=True, spare=1), dict(M=1, H=2, S=1), dict(k=0),
              clauses=CL + ('C10',), extra_monitors=MONS[:1] + DYN),
            J('steady2+2:H2S2X2R2', 'steady', dict(n=2, observers=2), dict(H=2, S=2, X=2, R=2), dict(k=1)),
            J('steady3+2:H1S1X2R1', 'steady', dict(n=3, observers=2), dict(H=1, S=1, X=2, R=1), dict(k=1)),
        ]
    for j in js:
        j['max_states'] = (60000 if 'sendfault' in j['name'] else 250000) if q else 2000000
    return js


def main(tier, seed, job_filter=None):
    return jobs.run_cluster_check(PROP, tier, seed, specs(tier), CL, TECH, ASSUME, job_filter, extra_monitors=MONS)


def replay_file(path):
    return jobs.replay_file_cluster(PROP, path, [dict({'clauses': CL, 'extra_monitors': MONS}, **s) for s in specs('thorough')])
