"""C11 - arguments of any size and shape arrive intact on every replica.

Input grid enumerated exhaustively (every payload length 0 .. 4*batch+64 for the small batch
sizes, bands k*batch +- 64 for 4096 and 65536; argument shapes; memory/file journal; batch and
non-batch mode). Per grid point the default schedule on real SyncObj nodes; for boundary sizes
additionally a BFS over all schedules with a drop+reconnect / extra heartbeat between chunks.
"""
import time

from mc import core, jobs
from mc.jobs import J

PROP = 'C11'
TECH = 'exhaustive enumeration of an input grid (argument sizes x batch sizes x journal kinds x append modes x shapes), each point executed on real SyncObj nodes under the default schedule; explicit-state BFS over all schedules (drops, reconnects, extra heartbeats, a re-elected former leader) of clusters in which every entry travels in chunks'
ASSUME = ['payload bytes are a repeated pattern (content does not influence chunking, only length does)',
          'default schedule = submit on leader, heartbeats until quiescence; deviations = one drop+reconnect and extra heartbeats between any two messages']


class ArgsMonitor(object):
    pass


def grid_job(name, n, batch_bytes, sizes, journal=None, batch=True, shape='pos', via_follower=False):
    """Run the default schedule for every payload size. One seed world, many continuations."""
    from mc import cluster, monitors, seeds
    from mc.cluster import Monitor

    class Args(Monitor):
        def init_ghost(self, model):
            return ()

        def on_step(self, model, pre_w, post_w, nid, ev, pre, post, out, obs, exc, g):
            for o in obs:
                if o[0] == 'apply':
                    g = g + ((nid, o[2], o[3], o[4]),)
            return g

    t0 = time.time()
    res = core.SearchResult(name)
    cfg = cluster.Config(n=n, batch_bytes=batch_bytes, journal=journal, batch=batch)
    mons = [monitors.SafetyMonitor(('C01', 'C02')), monitors.ExceptionMonitor('C11'), Args()]
    m = cluster.ClusterModel(cfg, seeds.make_prefix('steady', k=0), {}, mons, name=name)
    known = core.KnownFindings()
    try:
        w0 = m.initial()
    except core.Violation as v:
        res.violations.append(dict(msg=v.msg, sig=v.sig, trace=[]))
        return res
    leader = m.leader_of(w0)
    ids = [x for x, _ in w0.nodes]
    src = leader if not via_follower else [x for x in ids if x != leader][0]
    outcomes = set()
    for L in sizes:
        payload = (b'0123456789abcdef' * (L // 16 + 1))[:L]
        if shape == 'pos':
            args, kw = (payload,), ()
        elif shape == 'kw':
            args, kw = (), (('data', payload),)
        elif shape == 'both':
            args, kw = (payload[:L // 2],), (('data', payload[L // 2:]), ('n', L))
        elif shape == 'nested':
            args, kw = ([{'k': (payload, [1, 2, {'z': None}])}, payload.decode()],), (('opt', {'a': [payload]}),)
        elif shape == 'none':
            args, kw = (), ()
        import pickle
        evs = [('SA', src, pickle.dumps((args, dict(kw)), 2)), ('Z', src)]
        trace = list(evs)
        w = w0
        try:
            for ev in evs:
                w = m.apply(w, ev)
            # heartbeats + FIFO delivery until quiescent
            for r in range(12):
                before = w.key()
                ld = m.leader_of(w) or leader
                for ev in [('T', ld, cfg.period + 0.001)]:
                    w = m.apply(w, ev)
                    trace.append(ev)
                progressed = True
                guard = 0
                while progressed:
                    progressed = False
                    for (a, b), q in w.links:
                        ev = ('D', a, b)
                        w = m.apply(w, ev)
                        trace.append(ev)
                        progressed = True
                        guard += 1
                        break
                    if guard > 5000:
                        raise core.Violation('C11 message storm for payload length %d' % L, sig='storm')
                for x in ids:
                    ev = ('Z', x)
                    w = m.apply(w, ev)
                    trace.append(ev)
                res.transitions += 1
                if w.key() == before:
                    break
            applied = [a for a in w.ghost[2] if a[1] == 0]
            want_kw = tuple(sorted(kw))
            same = lambda x, y: pickle.dumps(x, 2) == pickle.dumps(y, 2) or x == y
            for x in ids:
                mine = [a for a in applied if a[0] == x]
                if len(mine) != 1:
                    raise core.Violation('C11 payload length %d (%s, batch %d): replica %s executed the call %d times' % (
                        L, shape, batch_bytes, x, len(mine)), sig='not-exactly-once')
                if not same(tuple(mine[0][2]), tuple(args)) or not same(tuple(mine[0][3]), want_kw):
                    raise core.Violation('C11 payload length %d (%s, batch %d): replica %s got different arguments' % (
                        L, shape, batch_bytes, x), sig='args-differ')
            cbs = {c[0]: c for c in w.ghost[0].cbs}
            if 0 not in cbs or cbs[0][2] != 0:
                raise core.Violation('C11 payload length %d (%s, batch %d): callback %r' % (L, shape, batch_bytes, cbs.get(0)),
                                     sig='no-success')
            outcomes.add((L, len(trace)))
        except core.Violation as v:
            if known.match(PROP, v.sig):
                res.known[v.sig] = res.known.get(v.sig, 0) + 1
            else:
                res.violations.append(dict(msg=v.msg, sig=v.sig, trace=[['grid-point', L]] + [list(e[:2]) + [repr(e[2])[:40]] if e[0] == 'SA' else list(e) for e in trace], size=L))
                if len(res.violations) >= 3:
                    break
        res.states += 1
    res.transitions = m.st.node_steps
    res.outcomes = outcomes
    res.samples = [[('payload-length', sizes[len(sizes) // 2]), ('shape', shape), ('batch', batch_bytes)]]
    res.extra.update(dict(grid_points=len(sizes), batch_bytes=batch_bytes, journal=journal, batch_mode=batch, shape=shape,
                          sizes='%d..%d' % (min(sizes), max(sizes)) if sizes else '', node_steps_executed=m.st.node_steps,
                          via_follower=via_follower))
    res.wall_s = time.time() - t0
    return res


def grid_jobs(tier):
    q = tier == 'quick'
    out = []

    def add(name, **kw):
        out.append((grid_job, dict(name=name, **kw)))
    for B in (1, 7, 64, 200):
        top = 4 * B + 64
        sizes = list(range(0, top + 1))
        add('grid:n2:b%d:mem:batch:pos' % B, n=2, batch_bytes=B, sizes=sizes)
        add('grid:n2:b%d:file:batch:pos' % B, n=2, batch_bytes=B, sizes=sizes if not q or B <= 64 else sizes[::3], journal='file')
        add('grid:n2:b%d:mem:nobatch:pos' % B, n=2, batch_bytes=B, sizes=sizes if not q or B <= 64 else sizes[::3], batch=False)
        if not q:
            add('grid:n3:b%d:mem:batch:pos:follower' % B, n=3, batch_bytes=B, sizes=sizes, via_follower=True)
            add('grid:n2:b%d:file:nobatch:pos' % B, n=2, batch_bytes=B, sizes=sizes, journal='file', batch=False)
    for B in (4096, 65536):
        sizes = sorted(set(s for k in range(1, 5) for s in range(k * B - 64, k * B + 65) if s >= 0))
        if q:
            sizes = sizes[::4] if B == 65536 else sizes[::2]
        add('grid:n2:b%d:mem:batch:pos' % B, n=2, batch_bytes=B, sizes=sizes)
        if not q or B == 4096:
            add('grid:n2:b%d:file:batch:pos' % B, n=2, batch_bytes=B, sizes=sizes[::2] if q else sizes, journal='file')
    # file journal growth: record sizes around the file-size boundaries 2^n * 1024 (the record is the pickled
    # command + 24 bytes; the pickled command is ~58 bytes longer than a bytes payload)
    for n in ((1, 2, 3) if q else (1, 2, 3, 4, 5)):
        top = 1024 * 2 ** n
        sizes = list(range(top - 260, top + 21, 1 if (not q or n < 3) else 2))
        add('grid:n2:b65536:file:batch:pos:filesize%d' % top, n=2, batch_bytes=65536, sizes=sizes, journal='file')
        if not q or n == 2:
            add('grid:n2:b200:file:nobatch:pos:filesize%d' % top, n=2, batch_bytes=200, sizes=sizes[::3], journal='file', batch=False)
    for shape in ('none', 'kw', 'both', 'nested'):
        sizes = [0] if shape == 'none' else [0, 1, 5, 63, 64, 65, 150, 199, 200, 201, 500, 864]
        add('grid:n3:b200:mem:batch:%s' % shape, n=3, batch_bytes=200, sizes=sizes, shape=shape)
        add('grid:n2:b64:file:nobatch:%s' % shape, n=2, batch_bytes=64, sizes=sizes, shape=shape, journal='file', batch=False)
    return out


CL = ('C01', 'C02', 'C04', 'C11')
XM = (('mc.monitors', 'ExceptionMonitor', dict(prop='C11')),)


def chunk_specs(tier):
    """Deviation schedules on the chunk path: every command is larger than the batch size, so each entry
    travels as start/process/finish messages; drops, reconnects, extra heartbeats and leader changes in between."""
    q = tier == 'quick'
    js = [
        J('chunks-steady2-b8:S1H2X1R1', 'steady', dict(n=2, batch_bytes=8), dict(S=1, H=2, X=1, R=1), dict(k=0)),
        J('chunks-steady2-b4:S1H2X1R1', 'steady', dict(n=2, batch_bytes=4), dict(S=1, H=2, X=1, R=1), dict(k=0)),
        J('chunks-reelected3-b8:R1H4', 'reelected_cache3', dict(n=3, batch_bytes=8), dict(R=1, H=4)),
        # batches cut by size: several entries per message, several messages per send call
        J('batches-pending3-b24:H3', 'pending', dict(n=3, batch_bytes=24), dict(H=3), dict(unrep=6)),
        J('batches-pipeline3-b24:H2R1', 'reconnect_pipeline', dict(n=3, batch_bytes=24), dict(H=2, R=1), dict(unrep=4)),
        J('chunks-lagging3-b8:H2R1X1', 'lagging', dict(n=3, batch_bytes=8), dict(H=2, R=1, X=1)),
        # the connection (to a voter or to a read-only node) breaks at the k-th write inside the send call that
        # writes the pieces of a large entry
        J('chunks-pending2+1-b8-sendfault:H1X1', 'pending', dict(n=2, observers=1, batch_bytes=8, send_faults=True),
          dict(H=1, X=1), dict(unrep=1)),
    ]
    if not q:
        js += [J('chunks-steady3-b8:S2H3X2R2', 'steady', dict(n=3, batch_bytes=8), dict(S=2, H=3, X=2, R=2), dict(k=0)),
               J('chunks-deposed3-b8:H3R2', 'deposed', dict(n=3, batch_bytes=8), dict(H=3, R=2), dict(black=True)),
               J('chunks-reelected3-b8:R2H5X1', 'reelected_cache3', dict(n=3, batch_bytes=8), dict(R=2, H=5, X=1))]
    for j in js:
        j['max_states'] = (60000 if 'sendfault' in j['name'] else 300000) if q else 2500000
    return js


def replay_grid(name, trace):
    """Confirmation of a grid violation: run that grid point again."""
    table = {}
    for t in ('quick', 'thorough'):
        for _, kw in grid_jobs(t):
            table.setdefault(kw['name'], kw)
    kw = dict(table[name], sizes=[trace[0][1]])
    r = grid_job(**kw)
    return r.violations[0]['msg'] if r.violations else None


def main(tier, seed, job_filter=None):
    js = grid_jobs(tier)
    if job_filter:
        js = [j for j in js if job_filter in j[1]['name']]
    grid = core.run_jobs(js) if js else []
    return jobs.run_cluster_check(PROP, tier, seed, chunk_specs(tier), CL, TECH, ASSUME, job_filter, extra_monitors=XM,
                                  extra_results=grid, extra_replay=replay_grid)


def replay_file(path):
    import json
    d = json.load(open(path))
    if d['job'].startswith('grid'):
        msg = replay_grid(d['job'], d['trace'])
        print('replay:', msg)
        if msg:
            print('VIOLATION property=%s replay=%s' % (PROP, path))
            return 1
        return 0
    return jobs.replay_file_cluster(PROP, path, [dict(s, clauses=CL, extra_monitors=XM) for s in chunk_specs('thorough')])
