"""C17 (histories) - code versions."""
from mc import core
from mc.cluster import Monitor, decode_cmd
from mc.monitors import tget, tset


def supported(selfver):
    return [v for v in (0, 1, 2) if v <= selfver]


class VersionMonitor(Monitor):
    """ghost: (impl_at: tuple position -> impl, expect: tuple of (sid, impl))"""

    def init_ghost(self, model):
        return ((), ())

    def on_step(self, model, pre_w, post_w, nid, ev, pre, post, out, obs, exc, g):
        impl_at, expect = g
        if not post.alive:
            return g
        selfver = dict(post.extra).get('selfver', 0)
        k = ev[0]
        # (c) which implementation a call made now must use
        if k in ('S', 'SM', 'SA') and pre.alive:
            sid = pre_w.nsub
            want = max(v for v in supported(selfver) if v <= pre.version and v <= 1)
            expect = expect + ((sid, want),)
        # (a) setCodeVersion validation
        if k == 'V' and pre.alive:
            v = ev[2]
            raised = any(o[0] == 'setver-raised' for o in obs)
            must = v > selfver or v < pre.version
            if raised != must:
                raise core.Violation('C17 setCodeVersion(%d) on %s (own version %d, enabled %d) %s' % (
                    v, nid, selfver, pre.version, 'raised but is a valid request' if raised else 'was accepted but must be rejected'),
                    sig='setver-validation')
        exp = dict(expect)
        for o in obs:
            if o[0] == 'apply' and o[4] and o[4][0][0] == 'impl':
                pos, sid, impl = o[1], o[2], o[4][0][1]
                old = tget(impl_at, pos)
                if old is None:
                    impl_at = tset(impl_at, pos, impl)
                elif old != impl:
                    raise core.Violation('C17 position %d was executed with implementation v%d on one node and v%d on %s (%r)' % (
                        pos, old, impl, nid, ev), sig='different-implementation')
                if isinstance(sid, tuple) and sid and sid[0] == 'vh':
                    # issued from inside onCodeVersionChanged(old, new): version `new` is enabled at that moment
                    want = max(v for v in (0, 1) if v <= sid[1])
                    if impl != want:
                        raise core.Violation('C17 the call issued from onCodeVersionChanged(.., %d) is executed with implementation v%d (%r)' % (
                            sid[1], impl, ev), sig='wrong-implementation')
                if sid in exp and exp[sid] != impl:
                    raise core.Violation('C17 submission %r was made when the caller had version %d enabled but is executed with '
                                         'implementation v%d (%r)' % (sid, exp[sid], impl, ev), sig='wrong-implementation')
                # (d) nothing is applied beyond an unsupported version switch
                for e in post.log:
                    if e[0] < pos:
                        kk, p = decode_cmd(e[2])
                        if kk == 'version' and p > selfver:
                            raise core.Violation('C17 %s (own version %d) executed position %d although the switch to version %d '
                                                 'at position %d is not supported by it (%r)' % (nid, selfver, pos, p, e[0], ev),
                                                 sig='applied-past-unsupported-version')
        # (d') applied index must not pass an unsupported switch; (e) enabled version == last applied switch
        enabled = 0
        for e in post.log:
            kk, p = decode_cmd(e[2])
            if kk == 'version':
                if e[0] <= post.applied:
                    if p > selfver:
                        raise core.Violation('C17 %s (own version %d) advanced its applied index %d over the unsupported switch to '
                                             'version %d at position %d (%r)' % (nid, selfver, post.applied, p, e[0], ev),
                                             sig='applied-past-unsupported-version')
                    enabled = p
        com = post_w.ghost[0].committed
        for p in range(2, min(post.first or 2, len(com))):
            if com[p] is not None:
                kk, pp = decode_cmd(com[p][1])
                if kk == 'version' and enabled < pp and not any(decode_cmd(e[2])[0] == 'version' and e[0] <= post.applied for e in post.log):
                    enabled = pp
        if post.version != enabled and post.applied >= (post.first or 0):
            raise core.Violation('C17 %s reports enabled code version %d, the version switches it has applied say %d (%r)' % (
                nid, post.version, enabled, ev), sig='enabled-version-wrong')
        return (impl_at, expect)
