"""C20 - a leader cut off from the majority steps down in bounded time; no SUCCESS while cut
off; hasQuorum == connected to a majority of known voters."""
from mc import core
from mc.cluster import Monitor, tick_dt, pair


class FallbackMonitor(Monitor):
    def init_ghost(self, model):
        # silence: ((n, m), elapsed local time of n since it last heard from m), only while n leads
        # cutsubs: ((n, sid), ...) submissions made on n while physically cut off from a majority
        return ((), ())

    def phys_majority(self, model, w, nid):
        s = model.summary(w, nid)
        total = len(s.others) + (1 if s.voter else 0)
        cnt = (1 if s.voter else 0) + sum(1 for o in s.others if pair(nid, o) in w.phys)
        return cnt * 2 > total

    def on_step(self, model, pre_w, post_w, nid, ev, pre, post, out, obs, exc, g):
        silence, cutsubs = g
        sil = dict(silence)
        cfg = model.cfg
        k = ev[0]
        if not post.alive:
            return g
        # --- has-quorum indicator, every state of the stepped node
        others = post.others
        total = len(others) + (1 if post.voter else 0)
        cnt = (1 if post.voter else 0) + len(others & post.connected)
        want = cnt * 2 > total
        got = dict(post.extra).get('quorum')
        if got != want:
            raise core.Violation('C20 hasQuorum of %s is %r but it is connected to %d of %d known voters (%r)' % (
                nid, got, cnt, total, ev), sig='hasquorum')
        # --- silence bookkeeping
        if k == 'D' and post.leader_flag:
            sil[(nid, ev[1])] = 0.0
        dt = tick_dt(cfg, ev)
        became = post.leader_flag and not pre.leader_flag
        # votes received for the term it is campaigning in count as "heard from" at the moment it wins
        heardv = set(x[1] for x in sil if x[0] == ('votes', nid))
        if k == 'D' and pre.alive and not pre.leader_flag and pre.voter:
            q = pre_w.queue(ev[1], ev[2])
            if q and b'response_vote' in q[0]:
                import pickle
                mm = pickle.loads(q[0])
                if mm.get('type') == 'response_vote' and mm.get('term') == post.term:
                    sil[(('votes', nid), ev[1])] = post.term
                    heardv.add(ev[1])
        for kk in [kk for kk in sil if kk[0] == ('votes', nid) and sil[kk] != post.term]:
            del sil[kk]
        if became:
            # the implementation restarts all its timers when it wins; what the property needs is that it has
            # heard from a majority: the voters of this term (a one-node cluster needs nobody)
            for o in post.others:
                if (('votes', nid), o) in sil or k != 'D' and len(post.others) == 0:
                    sil[(nid, o)] = 0.0
                else:
                    sil[(nid, o)] = cfg.fallback * 2 + 1.0
        elif dt is not None and pre.leader_flag:
            for o in pre.others:
                sil[(nid, o)] = round(sil.get((nid, o), 0.0) + dt, 6)
            heard = 1 + sum(1 for o in pre.others if sil[(nid, o)] <= cfg.fallback)
            if heard * 2 <= len(pre.others) + 1 and not post.leader_flag and post.leader == nid:
                raise core.Violation('C20 %s has left the leader state but still names itself as the leader (getStatus leader) although it heard from only '
                                     '%d of %d voters within the fallback timeout %.3f (%r)' % (nid, heard, len(pre.others) + 1, cfg.fallback, ev),
                                     sig='names-itself-leader')
            if heard * 2 <= len(pre.others) + 1 and post.leader_flag:
                raise core.Violation('C20 %s still reports itself leader after a tick although it heard from only %d of %d voters '
                                     'within the fallback timeout %.3f (silence %r) (%r)' % (
                                         nid, heard, len(pre.others) + 1, cfg.fallback,
                                         sorted((o, sil[(nid, o)]) for o in pre.others), ev), sig='no-fallback')
        if not post.leader_flag:
            for kk in [kk for kk in sil if kk[0] == nid]:
                del sil[kk]
        else:
            for kk in [kk for kk in sil if kk[0] == ('votes', nid)]:
                del sil[kk]
        # cap silence values so that the ghost does not grow without bound
        cap = cfg.fallback * 2 + 1.0
        for kk in sil:
            if not isinstance(kk[0], tuple) and sil[kk] > cap:
                sil[kk] = cap
        # --- no SUCCESS while cut off
        cs = set(cutsubs)
        if k == 'S' and not self.phys_majority(model, pre_w, nid):
            cs.add((nid, pre_w.nsub))
        for o in obs:
            if o[0] == 'cb' and o[3] == 0 and (nid, o[1]) in cs:
                raise core.Violation('C20 submission %r made on %s while cut off from a majority was answered SUCCESS while still cut off (%r)' % (
                    o[1], nid, ev), sig='success-while-cut-off')
        if cs:
            for n in set(n for n, _ in cs):
                if self.phys_majority(model, post_w, n):
                    cs = set(x for x in cs if x[0] != n)
        return (tuple(sorted(sil.items(), key=repr)), tuple(sorted(cs)))

    def after_reconnect(self, model, w, g):
        return g

    def check(self, model, w, g):
        # submissions stop counting as "made while cut off" once the node has a majority again
        return None
