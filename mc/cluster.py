"""E1 - cluster explorer: explicit-state search over worlds of real SyncObj nodes.

A world is a tuple of node keys (content-addressed pickled node bundles), per-directed-link
FIFO queues, physical-connection flags, budgets and ghost (monitor) state. Every transition
runs exactly one node: one real `_onTick`, one real message handler call, one transport
notification, one API call. Node-local transitions are memoised on (node key, event), because
the same node-local step occurs in very many world states.
"""
import collections
import functools
import io
import pickle
import types
import hashlib

from mc import seams, vfs, core

seams.install()

import pysyncobj.pickle as sopickle          # noqa: E402
from pysyncobj import SyncObj, SyncObjConf, replicated, SyncObjConsumer, FAIL_REASON  # noqa: E402
from pysyncobj.node import Node, TCPNode     # noqa: E402
from pysyncobj.transport import Transport    # noqa: E402
from pysyncobj.journal import Journal        # noqa: E402
from pysyncobj.fast_queue import FastQueue   # noqa: E402
from pysyncobj.serializer import Serializer  # noqa: E402
from pysyncobj.config import SyncObjConf as _Conf  # noqa: E402

T0 = 1000000.0
EPS = 0.001
OBS = []          # observations of the step that is running


class _RecordingLogger(object):
    """Stands in for the module logger of syncobj.py: what the library reports as a failed snapshot load is an
    observation of the step (everything else is dropped, as before: the harness never configured logging)."""

    def __init__(self, real):
        self._real = real

    def exception(self, msg, *a, **kw):
        if 'failed to load full dump' in str(msg):
            import sys as _sys
            et = _sys.exc_info()[0]
            OBS.append(('load-failed', et.__name__ if et is not None else None))

    def __getattr__(self, name):
        return getattr(self._real, name)


import pysyncobj.syncobj as _SO   # noqa: E402
if not isinstance(_SO.logger, _RecordingLogger):
    _SO.logger = _RecordingLogger(_SO.logger)
SEND_CAP = 12     # sends per step after which the frozen clock is advanced (flood guard)


def addr(i):
    return 'n%d:1' % i


# --------------------------------------------------------------------------------------
# Replicated test objects

class ListObj(SyncObj):
    """Only state: the list of (position, submission id) executed. Non-commutative and
    position-sensitive, so reordering, skipping, repeating and an off-by-one snapshot show."""

    def __init__(self, selfNode, others, conf, transport, consumers=None):
        super(ListObj, self).__init__(selfNode, others, conf, consumers=consumers, transport=transport)
        self.applied = []

    @replicated
    def put(self, sid, *pad, **kwpad):
        pos = self.raftLastApplied + 1
        self.applied.append((pos, sid))
        OBS.append(('apply', pos, sid, pad, tuple(sorted(kwpad.items()))))
        return len(self.applied)

    @replicated
    def boom(self, sid):
        pos = self.raftLastApplied + 1
        OBS.append(('apply-raise', pos, sid))
        raise ValueError('boom %r' % (sid,))

    @replicated
    def boom0(self):
        # raising method called without any argument (the command is pickled as a bare method id)
        pos = self.raftLastApplied + 1
        OBS.append(('apply-raise0', pos))
        raise KeyError('boom0')

    @replicated
    def boom2(self, sid, extra):
        # raising method with two positional arguments
        pos = self.raftLastApplied + 1
        OBS.append(('apply-raise', pos, sid))
        raise ValueError('boom2 %r %r' % (sid, extra))

    @replicated
    def boomx(self, sid):
        # application-defined exception class
        pos = self.raftLastApplied + 1
        OBS.append(('apply-raise', pos, sid))
        raise AppError('boomx %r' % (sid,))

    @replicated
    def boomo(self, sid):
        pos = self.raftLastApplied + 1
        OBS.append(('apply-raise', pos, sid))
        raise OSError(5, 'boomo %r' % (sid,))


class AppError(Exception):
    pass


class VOld(SyncObj):
    """'Old code': put exists in version 0 only."""

    def __init__(self, selfNode, others, conf, transport, consumers=None):
        super(VOld, self).__init__(selfNode, others, conf, consumers=consumers, transport=transport)
        self.applied = []

    @replicated
    def put(self, sid):
        pos = self.raftLastApplied + 1
        self.applied.append((pos, sid))
        OBS.append(('apply', pos, sid, (), (('impl', 0),)))
        return len(self.applied)


class VNew(SyncObj):
    """'New code': put in versions 0 and 1 (1 added with a higher version number)."""

    def __init__(self, selfNode, others, conf, transport, consumers=None):
        super(VNew, self).__init__(selfNode, others, conf, consumers=consumers, transport=transport)
        self.applied = []

    @replicated(ver=0)
    def put(self, sid):
        pos = self.raftLastApplied + 1
        self.applied.append((pos, sid))
        OBS.append(('apply', pos, sid, (), (('impl', 0),)))
        return len(self.applied)

    @replicated(ver=1)
    def put(self, sid):
        pos = self.raftLastApplied + 1
        self.applied.append((pos, sid))
        OBS.append(('apply', pos, sid, (), (('impl', 1),)))
        return len(self.applied)


def _vmixed(nid, cfg):
    """last voter runs the old code, everybody else the new code"""
    return VOld if nid == addr(cfg.n) else VNew


CUR = [None]     # bundle of the node whose step is running (for user-supplied serializer functions)


def custom_serializer(fileName, data):
    """User-supplied serializer (conf.serializer): stores the user's object state itself plus the
    library's bookkeeping `data`."""
    so = CUR[0].so
    state = dict((k, v) for k, v in so.__dict__.items() if k in ('applied',))
    with vfs.vfs_open(fileName, 'wb') as f:
        f.write(pickle.dumps((state, data), 2))


def custom_deserializer(fileName):
    so = CUR[0].so
    with vfs.vfs_open(fileName, 'rb') as f:
        state, data = pickle.loads(f.read())
    for k, v in state.items():
        so.__dict__[k] = v
    return data


class ChildExit(BaseException):
    def __init__(self, code):
        self.code = code


def fork_parent_hook():
    """os.fork() in the parent: remember the copy-on-write image of what the child will write."""
    import copy
    import sys as _sys
    fr = _sys._getframe(2)          # FakeOs.fork -> this hook; caller of os.fork is Serializer.serialize
    while fr is not None and fr.f_code.co_name != 'serialize':
        fr = fr.f_back
    b = CUR[0]
    b.extra['child'] = pickle.dumps((copy.deepcopy(fr.f_locals['data']), fr.f_locals['id']), 2)
    b.extra['childpid'] = 4242
    return 4242


def waitpid_hook(pid, flags):
    b = CUR[0]
    if b.extra.get('childdone') is not None:
        code = b.extra.pop('childdone')
        b.extra.pop('childpid', None)
        return (pid, code)
    if b.extra.get('childpid') == pid:
        return (0, 0)
    raise OSError('No child processes')


def kill_hook(pid, sig):
    """os.kill() of the emulated dump child: it dies before it does anything more (what it may have written so far
    is its temporary file only)."""
    b = CUR[0]
    if b.extra.get('childpid') != pid:
        raise OSError('No such process')
    if 'child' in b.extra:
        b.extra.pop('child')
        b.extra['childdone'] = 9
    return None


def run_fork_child(b):
    """Event Cf: the forked child runs the real child path of Serializer.serialize on its image."""
    import copy
    data, sid = pickle.loads(b.extra.pop('child'))
    ser = None
    for v in b.so.__dict__.values():
        if isinstance(v, Serializer):
            ser = v
    child = copy.copy(ser)
    for k in list(child.__dict__):
        if k.endswith('__pid'):
            child.__dict__[k] = 0
    vfs.FAKE_OS.fork_hook = lambda: 0
    vfs.FAKE_OS.exit_hook = _child_exit
    status = 0
    try:
        child.serialize(data, sid)
    except ChildExit as e:
        status = (e.code & 0xff) << 8        # wait status of a normal exit
    except vfs.Killed:
        status = 9                           # the child itself was killed (SIGKILL) in the middle of its writes
    finally:
        vfs.FAKE_OS.fork_hook = fork_parent_hook
    b.vfs.dead = False
    b.vfs.kill_at = None
    b.extra['childdone'] = status


def _child_exit(code):
    raise ChildExit(code)


vfs.FAKE_OS.fork_hook = fork_parent_hook
vfs.FAKE_OS.waitpid_hook = waitpid_hook
vfs.FAKE_OS.exit_hook = _child_exit
vfs.FAKE_OS.kill_hook = kill_hook


class Recorder(object):
    """Picklable sink for user-visible callbacks of one node."""

    def __init__(self):
        self.so = None

    def on_state(self, old, new):
        OBS.append(('state', old, new, self.so.raftCurrentTerm if self.so is not None else None))

    def cb(self, sid, res, err):
        OBS.append(('cb', sid, res, err))

    def on_ready(self):
        OBS.append(('ready',))

    def on_version(self, old, new):
        OBS.append(('version', old, new))
        if getattr(self, 'hook', False) and self.so is not None:
            # a migration step: the application issues a replicated call from inside onCodeVersionChanged
            sid = ('vh', new, CUR[0].nid if CUR[0] is not None else None)
            self.so.put(sid, callback=functools.partial(self.cb, sid))


# --------------------------------------------------------------------------------------
# Transport

SENT_TO = {}             # messages written per peer in the running step
SEND_FAIL = [None, None]  # (peer, k): the connection to peer breaks at its k-th write of the running step


class SimTransport(Transport):
    """Harness-owned transport: send() hands the pickled message to the explorer iff this
    endpoint considers the peer connected."""

    def __init__(self, self_id):
        Transport.__init__(self, None, None, [])
        self.self_id = self_id
        self.connected = set()     # wire ids of peers whose endpoint (on this side) is up
        self.outbox = []
        self.sends = 0
        self.known = set()         # member ids added through addNode
        self.ro_local = {}         # wire id of observer -> local Node id (str counter)
        self.ro_counter = 0
        self.dropped = []

    # -- library-facing
    def addNode(self, node):
        self.known.add(node.id)
        OBS.append(('addnode', node.id))

    def dropNode(self, node):
        self.known.discard(node.id)
        if node.id in self.connected:
            # like TCPTransport.dropNode: the connection is closed and the disconnect is reported
            self.connected.discard(node.id)
            self._onNodeDisconnected(TCPNode(node.id))
        OBS.append(('dropnode', node.id))

    def send(self, node, message):
        self.sends += 1
        if self.sends > SEND_CAP:
            # a wait-on-the-clock loop is flooding: let time pass like it would in reality
            seams.CLOCK[0] += 1.0
        wire = self._wire(node.id)
        if wire is None or wire not in self.connected:
            return False
        k = SENT_TO.get(wire, 0)
        SENT_TO[wire] = k + 1
        if SEND_FAIL[0] == wire and SEND_FAIL[1] == k:
            # the write fails: like the TCP transport, the connection is torn down and the library is told at once,
            # from inside send()
            SEND_FAIL[0] = None
            self.ev_disconnected(wire)
            return False
        self.outbox.append((wire, pickle.dumps(message, 2)))
        return True

    def destroy(self):
        pass

    # -- explorer-facing
    def _wire(self, local_id):
        for w, l in self.ro_local.items():
            if l == local_id:
                return w
        return local_id

    def node_for(self, wire_id):
        if wire_id in self.ro_local:
            return Node(self.ro_local[wire_id])
        return TCPNode(wire_id)

    def ev_connected(self, wire_id, readonly=False):
        self.connected.add(wire_id)
        if readonly:
            self.ro_local[wire_id] = str(self.ro_counter)
            self.ro_counter += 1
            self._onReadonlyNodeConnected(Node(self.ro_local[wire_id]))
        else:
            self._onNodeConnected(TCPNode(wire_id))

    def ev_disconnected(self, wire_id):
        self.connected.discard(wire_id)
        if wire_id in self.ro_local:
            n = Node(self.ro_local.pop(wire_id))
            self._onReadonlyNodeDisconnected(n)
        else:
            self._onNodeDisconnected(TCPNode(wire_id))

    def ev_message(self, wire_id, message):
        self._onMessageReceived(self.node_for(wire_id), message)


# --------------------------------------------------------------------------------------
# Node bundles, pickling, canonical key

class Bundle(object):
    def __init__(self, nid):
        self.nid = nid
        self.so = None
        self.tr = None
        self.rec = None
        self.vfs = None
        self.now = T0
        self.alive = True
        self.consumer_ids = []
        self.kills = 0
        self.extra = {}


class _P(pickle.Pickler):
    def reducer_override(self, obj):
        if type(obj) is types.MethodType:
            return (getattr, (obj.__self__, seams.mangled(obj)))
        return NotImplemented


def dumps(bundle):
    if bundle.so is not None:
        bundle.consumer_ids = [id(c) for c in _consumers(bundle.so)]
    f = io.BytesIO()
    _P(f, 4).dump(bundle)
    return f.getvalue()


def loads(blob):
    b = pickle.loads(blob)
    if b.so is not None and b.consumer_ids:
        _remap_ids(b)
    return b


def _consumers(so):
    for v in so.__dict__.values():
        if isinstance(v, list) and v and all(isinstance(c, SyncObjConsumer) for c in v):
            return v
    return []


def _remap_ids(b):
    cons = _consumers(b.so)
    m = {old: id(c) for old, c in zip(b.consumer_ids, cons)}
    if all(k == v for k, v in m.items()):
        return
    for name, val in list(b.so.__dict__.items()):
        if isinstance(val, dict) and any(isinstance(k, tuple) and k and k[0] in m for k in val):
            b.so.__dict__[name] = {((m[k[0]],) + k[1:] if isinstance(k, tuple) and k and k[0] in m else k): v
                                   for k, v in val.items()}
    b.consumer_ids = [id(c) for c in cons]


TIME_HINTS = {
    # attribute-name suffix -> how the library compares the value
    'raftElectionDeadline': 'deadline',      # t < now
    'newAppendEntriesTime': 'deadline',      # now > t
    'lastResponseTime': 'leaderFallbackTimeout',
    'lastSerializedTime': 'logCompactionMinTime',
    'lastInitTryTime': 'ignore',
    'lastReadonlyCheck': 'ignore',
}
SKIP_TYPES = (_Conf, seams.DummyPoller, seams.DummyLock, Recorder)


class Canon(object):
    """Name-independent canonical form of a node bundle (see DESIGN.md, 'Canonical state
    key'). Unknown fields are included as they are (over-fine is only slower)."""

    def __init__(self, bundle, exact_time=False):
        self.now = bundle.now
        self.seen = {}
        self.cids = {}
        self.exact = exact_time
        conf = bundle.so.conf if bundle.so is not None else None
        self.conf = conf
        self.past = None
        if conf is not None:
            fin = [v for v in (conf.appendEntriesPeriod, conf.raftMinTimeout, conf.raftMaxTimeout,
                               conf.leaderFallbackTimeout, conf.logCompactionMinTime) if v < 1e5]
            self.past = max(fin) + EPS
            for i, c in enumerate(_consumers(bundle.so)):
                self.cids[id(c)] = i

    def t(self, f, hint=None):
        rel = round(f - self.now, 6)
        if self.exact:
            return ('t', rel)
        if hint == 'ignore':
            return ('t', '-')
        if hint == 'deadline':
            return ('t', rel if rel >= 0 else 'past')
        if hint is not None and self.conf is not None:
            th = getattr(self.conf, hint)
            if th >= 1e5:
                return ('t', 'never')
            return ('t', rel if -rel <= th else 'expired')
        if self.past is not None and -rel > self.past:
            return ('t', 'past')
        return ('t', rel)

    def walk(self, o, hint=None):
        if o is None or o is True or o is False:
            return o
        tp = type(o)
        if tp is int:
            if o in self.cids:
                return ('cid', self.cids[o])
            return o
        if tp is str or tp is bytes:
            return o
        if tp is float:
            if abs(o - self.now) < 1e5:
                return self.t(o, hint)
            return o
        if tp is tuple or tp is list or tp is collections.deque:
            return tuple([self.walk(x, hint) for x in o])
        if tp is dict or tp is collections.defaultdict:
            items = [(self.walk(k), self.walk(v, hint)) for k, v in o.items()]
            items.sort(key=repr)
            return ('d',) + tuple(items)
        if tp is set or tp is frozenset:
            items = [self.walk(x) for x in o]
            items.sort(key=repr)
            return ('s',) + tuple(items)
        if isinstance(o, Node):
            return ('N', o.id)
        if isinstance(o, SKIP_TYPES):
            return None
        if tp is types.MethodType:
            return ('m', self.walk(o.__self__) if not isinstance(o.__self__, (SyncObj, Recorder)) else 'self', o.__func__.__name__)
        if tp is functools.partial:
            return ('p', self.walk(o.func), self.walk(o.args), self.walk(o.keywords))
        if tp is types.FunctionType or tp is types.BuiltinFunctionType or isinstance(o, type):
            return ('f', getattr(o, '__qualname__', repr(o)))
        if isinstance(o, vfs.VFS):
            return ('vfs', o.key())
        if isinstance(o, vfs.FakeFile):
            return ('file', o.path, o.pos, bytes(o.buf), o.closed)
        if isinstance(o, vfs.FakeMmap):
            return ('mmap', o.path)
        i = id(o)
        if i in self.seen:
            return ('ref', self.seen[i])
        self.seen[i] = len(self.seen)
        d = getattr(o, '__dict__', None)
        if d is None:
            return ('o', tp.__name__, repr(o))
        names = sorted(d)
        out = [tp.__name__]
        special = self._special(d)
        for n in names:
            if n in special:
                continue
            h = None
            if not self.exact:
                for suf, hh in TIME_HINTS.items():
                    if n.endswith(suf):
                        h = hh
            out.append((n, self.walk(d[n], h)))
        out.extend(special.values())
        return tuple(out)

    def _special(self, d):
        """(startTime, numOneSecondDumps): only the number of pending one-second flushes
        matters: ceil(now - startTime) - numOneSecondDumps."""
        st = nd = None
        for n in d:
            if n.endswith('__startTime'):
                st = n
            elif n.endswith('__numOneSecondDumps'):
                nd = n
        if st is None or nd is None or self.exact:
            return {}
        import math
        pending = max(0, math.ceil(self.now - d[st] - 1e-9) - d[nd]) if self.now > d[st] else 0
        first = d[nd] == 0
        return {st: ('pending_sec_flush', pending, first), nd: None}


def node_key(bundle, exact_time=False):
    c = Canon(bundle, exact_time)
    if not bundle.alive or bundle.so is None:
        form = ('dead', bundle.nid, c.walk(bundle.vfs), bundle.kills, c.walk(bundle.extra))
    else:
        form = ('node', bundle.nid, c.walk(bundle.so), c.walk(bundle.tr.__dict__), c.walk(bundle.vfs),
                bundle.kills, c.walk(bundle.extra))
    return hashlib.blake2b(repr(form).encode(), digest_size=16).digest(), form


# --------------------------------------------------------------------------------------
# Summaries (what monitors look at), via public API / by type

Summary = collections.namedtuple('Summary', 'nid alive term leader_flag leader commit applied log first last '
                                 'app others connected ro version voter ready extra')


def find_journal(so):
    for v in so.__dict__.values():
        if isinstance(v, Journal):
            return v
    raise core.HarnessError('no journal found on SyncObj')


def summarize(b):
    if not b.alive or b.so is None:
        return Summary(b.nid, False, None, False, None, None, None, (), None, None, (), frozenset(), frozenset(),
                       frozenset(), None, not b.nid.startswith('o'), False, tuple(sorted(b.extra.items())))
    so = b.so
    j = find_journal(so)
    log = tuple((e[1], e[2], bytes(e[0]) if not isinstance(e[0], bytes) else e[0]) for e in (j[i] for i in range(len(j))))
    ld = so._getLeader()
    app = tuple(getattr(so, 'applied', ()))
    return Summary(b.nid, True, so.raftCurrentTerm, bool(so._isLeader()), ld.id if ld is not None else None,
                   so.raftCommitIndex, so.raftLastApplied, log, log[0][0] if log else None, log[-1][0] if log else None,
                   app, frozenset(n.id for n in so.otherNodes), frozenset(b.tr.connected),
                   frozenset(b.tr.ro_local), so.getCodeVersion(), so.selfNode is not None, so.isReady(),
                   tuple(sorted(b.extra.items())) + (('quorum', bool(so.hasQuorum)),
                                                       ('selfver', so.getStatus()['self_code_version'])) +
                   ((('zbat', tuple(battery_state(c) for c in _consumers(so))),) if _consumers(so) else ()))


def decode_cmd(cmd):
    """(kind, payload) of a log entry command: ('noop',None) / ('reg', (funcID,args,kwargs)) /
    ('member', req) / ('version', v)."""
    t = cmd[:1]
    if t == b'\x01':
        return ('noop', None)
    if t == b'\x00':
        c = sopickle.loads(cmd[1:])
        if not isinstance(c, tuple):
            return ('reg', (c, (), {}))
        if len(c) == 2:
            return ('reg', (c[0], tuple(c[1]), {}))
        return ('reg', (c[0], tuple(c[1]), dict(c[2])))
    if t == b'\x02':
        r = sopickle.loads(cmd[1:])
        return ('member', (r[0], r[1]))
    if t == b'\x03':
        return ('version', sopickle.loads(cmd[1:]))
    return ('unknown', cmd)


@functools.lru_cache(maxsize=200000)
def cmd_sid(cmd):
    k, p = decode_cmd(cmd)
    if k == 'reg' and p[1]:
        return p[1][0]
    return None


# --------------------------------------------------------------------------------------
# Configuration of a world

class Config(object):
    def __init__(self, n=3, observers=0, batch=True, batch_bytes=2 ** 16, chunk=2 ** 16, journal=None,
                 dyn=False, obj='list', period=0.01, tmin=0.04, tmax=0.05, fallback=1e9, wait_leader=True,
                 qsize=1000, min_entries=1000000, exact_time=False, fuse=False, members=None, conf_extra=None,
                 consumers=None, use_fork=False, h_all=False, methods=(), free_restart=True, spare=0, versions=(0, 1, 2), serializer=None, kill_only=None, send_faults=False, version_hook=False, write_buffer=8192):
        self.n = n
        self.observers = observers
        self.batch = batch
        self.batch_bytes = batch_bytes
        self.chunk = chunk
        self.journal = journal          # None | 'file' | 'file+dump' | 'dump'
        self.dyn = dyn
        self.obj = obj
        self.period = period
        self.tmin = tmin
        self.tmax = tmax
        self.fallback = fallback
        self.wait_leader = wait_leader
        self.qsize = qsize
        self.min_entries = min_entries
        self.exact_time = exact_time
        self.fuse = fuse
        self.members = members          # initial voter ids known to each node (default all)
        self.conf_extra = conf_extra or {}
        self.consumers = consumers
        self.use_fork = use_fork
        self.serializer = serializer    # None | 'custom' (user-supplied serializer/deserializer functions)
        self.versions = tuple(versions)
        self.spare = spare              # absent node ids that a membership change may add
        self.free_restart = free_restart   # restarts do not consume budget (kills do)
        self.write_buffer = write_buffer   # user-space buffer size of file objects (scaled down where snapshots are small)
        self.version_hook = version_hook   # onCodeVersionChanged issues a replicated call
        self.send_faults = send_faults     # HX events: a connection breaks in the middle of a multi-message send call
        self.kill_only = kill_only         # restrict kill events to these nodes (None: every journaled voter)
        self.methods = tuple(methods)   # extra replicated methods offered as submissions (besides put)
        self.h_all = h_all              # heartbeat-sized time steps on non-leaders too

    def voter_ids(self):
        return [addr(i + 1) for i in range(self.n)]

    def observer_ids(self):
        return ['o%d' % (i + 1) for i in range(self.observers)]

    def describe(self):
        d = dict(self.__dict__)
        return {k: v for k, v in d.items() if v is not None and v != {} and k not in ('consumers',)}


def _consumer_sets():
    from pysyncobj import batteries as B
    return {
        'counter': lambda: [B.ReplCounter()],
        'list': lambda: [B.ReplList()],
        'dict': lambda: [B.ReplDict()],
        'set': lambda: [B.ReplSet()],
        'queue2': lambda: [B.ReplQueue(2)],
        'pqueue2': lambda: [B.ReplPriorityQueue(2)],
        'queue+dict': lambda: [B.ReplQueue(2), B.ReplDict()],
        'lock': lambda: [B._ReplLockManagerImpl(10.0)],     # the replicated half of ReplLockManager
        'all': lambda: [B.ReplCounter(), B.ReplList(), B.ReplDict(), B.ReplSet(), B.ReplQueue(2), B.ReplPriorityQueue(2)],
    }


BATTERY_OPS = {
    'counter': [(0, 'inc', ()), (0, 'add', (2,)), (0, 'set', (0,))],
    'lock': [(0, 'acquire', ('L', 'a', 100.0)), (0, 'acquire', ('L', 'b', 101.0)), (0, 'release', ('L', 'a')), (0, 'prolongate', ('a', 102.0)),
             (0, 'acquire', ('M', 'b', 103.0))],
    'list': [(0, 'append', (1,)), (0, 'append', (0,)), (0, 'pop', ()), (0, 'remove', (1,)), (0, 'sort', ()), (0, 'insert', (0, 2))],
    'dict': [(0, 'set', ('a', 1)), (0, 'set', ('b', 0)), (0, 'pop', ('a',)), (0, 'setdefault', ('b', 2)), (0, 'clear', ())],
    'set': [(0, 'add', (1,)), (0, 'add', (2,)), (0, 'remove', (1,)), (0, 'discard', (2,)), (0, 'pop', ())],
    'queue2': [(0, 'put', (1,)), (0, 'put', (0,)), (0, 'get', ())],
    'pqueue2': [(0, 'put', (1,)), (0, 'put', (0,)), (0, 'get', ())],
    'queue+dict': [(0, 'put', (1,)), (0, 'get', ()), (1, 'set', ('a', 1)), (1, 'pop', ('a',))],
    'all': [(0, 'inc', ()), (1, 'append', (1,)), (1, 'pop', ()), (2, 'set', ('a', 1)), (3, 'add', (1,)), (4, 'put', (1,)), (4, 'get', ()),
            (5, 'put', (0,)), (5, 'get', ())],
}


def battery_state(c):
    # every instance attribute except the back-reference and the bookkeeping set (NOT _serialize():
    # what is left out of snapshots by mistake must show up as a difference)
    d = {k: v for k, v in c.__dict__.items() if k != '_syncObj' and not k.endswith('__properies')}
    out = []
    for k in sorted(d):
        v = d[k]
        if isinstance(v, (set, frozenset)):
            v = ('set', tuple(sorted(v, key=repr)))
        elif isinstance(v, dict):
            v = ('dict', tuple(sorted(v.items(), key=repr)))
        elif isinstance(v, collections.deque):
            v = ('deque', tuple(v))
        elif isinstance(v, list):
            v = ('list', tuple(v))
        out.append((k.split('__')[-1], v))
    return tuple(out)


OBJ_CLASSES = {'list': ListObj, 'vold': VOld, 'vnew': VNew, 'vmixed': _vmixed}


def make_conf(cfg, rec, nid):
    kw = dict(autoTick=False, appendEntriesUseBatch=cfg.batch, appendEntriesBatchSizeBytes=cfg.batch_bytes,
              logCompactionBatchSize=cfg.chunk, appendEntriesPeriod=cfg.period, raftMinTimeout=cfg.tmin,
              raftMaxTimeout=cfg.tmax, leaderFallbackTimeout=cfg.fallback, commandsWaitLeader=cfg.wait_leader,
              commandsQueueSize=cfg.qsize, logCompactionMinEntries=cfg.min_entries, logCompactionMinTime=1e9,
              connectionTimeout=max(3.5, cfg.tmax), dynamicMembershipChange=cfg.dyn, useFork=cfg.use_fork,
              onStateChanged=rec.on_state, onReady=rec.on_ready, onCodeVersionChanged=rec.on_version)
    if cfg.journal in ('file', 'file+dump'):
        kw['journalFile'] = '/%s/journal' % nid
    if cfg.journal in ('file+dump', 'dump'):
        kw['fullDumpFile'] = '/%s/dump' % nid
    if cfg.serializer == 'custom':
        kw['serializer'] = custom_serializer
        kw['deserializer'] = custom_deserializer
    kw.update(cfg.conf_extra)
    return SyncObjConf(**kw)


def build_node(cfg, nid, members, vfs_obj=None, now=T0, kills=0, extra=None):
    """Construct (or restart from its files) a node."""
    b = Bundle(nid)
    b.now = now
    b.kills = kills
    b.extra = dict(extra or {})
    b.vfs = vfs_obj if vfs_obj is not None else vfs.VFS()
    b.tr = SimTransport(nid)
    b.rec = Recorder()
    b.rec.hook = cfg.version_hook
    seams.CLOCK[0] = now
    seams.CLOCK_DRIFT[0] = 0.0
    seams.RAND[0] = 0.0      # (a previous closing run may have left another answer behind)
    vfs.WRITE_BUFFER = cfg.write_buffer
    seams.NONCE[0] = kills << 20    # what a real random source gives: another value in every incarnation of the process
    vfs.activate(b.vfs)
    b.vfs.begin_step()
    CUR[0] = b
    conf = make_conf(cfg, b.rec, nid)
    cls = OBJ_CLASSES[cfg.obj]
    if not isinstance(cls, type):
        cls = cls(nid, cfg)
    is_obs = nid.startswith('o')
    consumers = _consumer_sets()[cfg.consumers]() if cfg.consumers else None
    b.so = cls(None if is_obs else nid, [m for m in members if m != nid], conf, b.tr, consumers=consumers)
    b.rec.so = b.so
    b.now = seams.CLOCK[0]
    return b


# --------------------------------------------------------------------------------------
# Node-local step execution

class Stepper(object):
    """Content-addressed node store + memoised node-local transition function."""

    def __init__(self, cfg):
        self.cfg = cfg
        self.store = {}      # node key -> blob
        self.summ = {}       # node key -> Summary
        self.memo = {}       # (node key, event) -> (new key, outbox, obs, exc)
        self.forms = None    # optional: key -> canonical form (debugging)
        self.node_steps = 0

    def put(self, bundle):
        k, form = node_key(bundle, self.cfg.exact_time)
        if k not in self.store:
            self.store[k] = dumps(bundle)
            self.summ[k] = summarize(bundle)
            if self.forms is not None:
                self.forms[k] = form
        return k

    def get(self, k):
        return loads(self.store[k])

    def step(self, k, ev):
        """ev: ('tick', dt) | ('msg', src, bytes) | ('conn', peer, ro) | ('disc', peer) |
        ('call', name, args...) ...  Returns (new key, outbox, obs, exception text or None)."""
        mk = (k, ev)
        r = self.memo.get(mk)
        if r is not None:
            return r
        self.node_steps += 1
        b = self.get(k)
        out, obs, exc, killed = run_event(b, ev, self.cfg)
        nk = self.put(b)
        r = (nk, tuple(out), tuple(obs), exc, b.vfs.nwrites)
        self.memo[mk] = r
        return r

    def kill(self, k, ev, at):
        """Kill the node before OS-visible mutation number `at` of node event `ev` (ev None: kill
        between steps). Returns (dead key, outbox so far, obs so far)."""
        mk = (k, ev, 'kill', at)
        r = self.memo.get(mk)
        if r is not None:
            return r
        self.node_steps += 1
        b = self.get(k)
        out, obs = [], []
        if ev is not None:
            out, obs, exc, killed = run_event(b, ev, self.cfg, kill_at=at)
            if not killed:
                raise core.HarnessError('kill point %r of %r not reached' % (at, ev))
        pre = summarize(b)
        dead = Bundle(b.nid)
        dead.alive = False
        dead.now = b.now
        dead.kills = b.kills + 1
        dead.vfs = b.vfs.clone_files()
        # what a restart would recover (trial restart on a copy of the files)
        dump = '/%s/dump' % b.nid
        if dump in b.vfs.files:
            try:
                raw = bytes(b.vfs.files[dump])
                if self.cfg.serializer is None:
                    import gzip as _gz
                    pickle.loads(_gz.decompress(raw))
                else:
                    pickle.loads(raw)
            except Exception as e:
                raise core.Violation('C09 %s killed %s: the dump file on disk is not a complete snapshot (%s: %s)' % (
                    b.nid, 'between steps' if ev is None else 'before OS-visible mutation %d of %r' % (at, ev[:2]),
                    type(e).__name__, e), sig='torn-dump')
        try:
            trial = build_node(self.cfg, b.nid, self.cfg.members or self.cfg.voter_ids(), vfs_obj=b.vfs.clone_files(), now=b.now)
        except Exception as e:
            raise core.Violation('C06 %s killed %s: starting it again from its files raises %s: %s' % (
                b.nid, 'between steps' if ev is None else 'before OS-visible mutation %d of %r' % (at, ev[:2]),
                type(e).__name__, e), sig='restart-raises')
        run_event(trial, ('tick', 0.0), self.cfg)     # the first tick loads the dump, before any message is handled
        ts = summarize(trial)
        dead.extra = {'durable': (ts.first, tuple((e[1], e[2]) for e in ts.log)),
                      'prekill': (pre.first, tuple((e[0], e[1]) for e in pre.log), pre.commit, pre.applied, pre.term)}
        nk = self.put(dead)
        r = (nk, tuple(out), tuple(obs))
        self.memo[mk] = r
        return r

    def restart(self, k):
        mk = (k, 'restart')
        r = self.memo.get(mk)
        if r is not None:
            return r
        self.node_steps += 1
        d = self.get(k)
        # 'fresh': constructed, first tick not yet run. Messages are only read by poll() at the end of a tick
        # and the first tick loads the dump, so until then only ticks (and kills) are enabled for this node and
        # the oracle counts what the files hold ('durable'), as for a dead node.
        b = build_node(self.cfg, d.nid, self.cfg.members or self.cfg.voter_ids(), vfs_obj=d.vfs.clone_files(), now=d.now,
                       kills=d.kills, extra={'fresh': 1, 'durable': d.extra.get('durable')})
        nk = self.put(b)
        self.memo[mk] = nk
        return nk


def run_event(b, ev, cfg, kill_at=None):
    """Execute one node-local event on a live bundle (mutates it)."""
    del OBS[:]
    CUR[0] = b
    seams.CLOCK[0] = b.now
    seams.CLOCK_DRIFT[0] = 0.0
    seams.RAND[0] = 0.0
    vfs.activate(b.vfs)
    at_death = []

    def on_kill():
        at_death.append((len(b.tr.outbox), len(OBS)))
    b.vfs.begin_step(kill_at=kill_at, on_kill=on_kill)
    b.tr.outbox = []
    b.tr.sends = 0
    SENT_TO.clear()
    SEND_FAIL[0] = None
    vfs.WRITE_BUFFER = cfg.write_buffer
    kind = ev[0]
    exc = None
    killed = False
    try:
        if kind == 'tickx':
            # ('tickx', dt, peer, k): a tick during which the k-th message to `peer` cannot be written
            SEND_FAIL[0], SEND_FAIL[1] = ev[2], ev[3]
            seams.CLOCK[0] += ev[1]
            try:
                b.so._onTick(0.0)
            finally:
                SEND_FAIL[0] = None
        elif kind == 'tick':
            b.extra.pop('fresh', None)
            b.extra.pop('durable', None)
            seams.CLOCK[0] += ev[1]
            if len(ev) > 2 and ev[2]:
                seams.CLOCK_DRIFT[0] = ev[2]
            if len(ev) > 3:
                seams.RAND[0] = ev[3]
            b.so._onTick(0.0)
        elif kind == 'msg':
            b.tr.ev_message(ev[1], pickle.loads(ev[2]))
        elif kind == 'conn':
            b.tr.ev_connected(ev[1], ev[2])
        elif kind == 'disc':
            b.tr.ev_disconnected(ev[1])
        elif kind == 'put':
            # ('put', sid, method, args, kwargs)
            sid = ev[1]
            getattr(b.so, ev[2])(sid, *ev[3], callback=functools.partial(b.rec.cb, sid), **dict(ev[4]))
        elif kind == 'child':
            if len(ev) > 1 and ev[1] == 'fail':
                b.vfs.fail_writes = True     # the child cannot create its output file (disk full): it exits with an error code
            elif len(ev) > 1:
                b.vfs.kill_at = ev[1]        # the CHILD process is killed before this mutation, the node lives on
                b.vfs.on_kill = None
            try:
                run_fork_child(b)
            finally:
                b.vfs.fail_writes = False
        elif kind == 'bop':
            # ('bop', sid, consumer index, method, args): a call on a battery
            getattr(_consumers(b.so)[ev[2]], ev[3])(*ev[4], callback=functools.partial(b.rec.cb, ev[1]))
        elif kind == 'call0':
            # ('call0', sid, method): replicated call without any argument
            getattr(b.so, ev[2])(callback=functools.partial(b.rec.cb, ev[1]))
        elif kind == 'putp':
            sid = ev[1]
            a, kw = pickle.loads(ev[3])
            getattr(b.so, ev[2])(sid, *a, callback=functools.partial(b.rec.cb, sid), **kw)
        elif kind == 'compact':
            b.so.forceLogCompaction()
        elif kind == 'compactfail':
            # a compaction whose dump cannot be written (disk full while the dump file is created), in the
            # modes that write the dump inside the tick (no fork / user-supplied serializer)
            b.so.forceLogCompaction()
            b.vfs.fail_dump = True
            try:
                b.so._onTick(0.0)
            finally:
                b.vfs.fail_dump = False
        elif kind == 'member':
            # ('member', 'add'|'rem', node id, sid, via)
            cbk = functools.partial(b.rec.cb, ev[3])
            if ev[4] == 'api':
                if ev[1] == 'add':
                    b.so.addNodeToCluster(ev[2], callback=cbk)
                else:
                    b.so.removeNodeFromCluster(ev[2], callback=cbk)
            else:
                name = 'add' if ev[1] == 'add' else 'remove'
                b.tr._onUtilityMessageCallbacks[name]([ev[2]], cbk)
        elif kind == 'setver':
            try:
                b.so.setCodeVersion(ev[1], callback=functools.partial(b.rec.cb, ev[2]))
            except Exception as e:   # documented: raises on unsupported / lower version
                OBS.append(('setver-raised', ev[1], type(e).__name__))
        elif kind == 'custom':
            ev[1](b, *ev[2:])
        else:
            raise core.HarnessError('unknown node event %r' % (ev,))
    except vfs.Killed:
        killed = True
    except core.HarnessError:
        raise
    except NotImplementedError:
        raise
    except Exception as e:
        import traceback
        tb = traceback.extract_tb(e.__traceback__)
        where = ''
        for fr in reversed(tb):
            if '/pysyncobj/' in fr.filename:
                where = '%s:%s' % (fr.filename.split('/')[-1], fr.name)
                break
        exc = '%s: %s @%s' % (type(e).__name__, e, where)
    finally:
        seams.CLOCK_DRIFT[0] = 0.0
    b.now = seams.CLOCK[0]
    out = b.tr.outbox
    b.tr.outbox = []
    obs = list(OBS)
    if at_death:
        # whatever the library did after the kill (bare 'except:' clauses swallow it) never happened
        killed = True
        exc = None
        out = out[:at_death[0][0]]
        obs = obs[:at_death[0][1]]
    b.vfs.on_kill = None
    return list(out), obs, exc, killed


# --------------------------------------------------------------------------------------
# World

BUDGET_KINDS = ('E', 'H', 'S', 'X', 'R', 'K', 'F', 'P', 'U', 'M', 'O', 'V', 'W', 'J', 'Q', 'G')


class World(object):
    __slots__ = ('nodes', 'links', 'phys', 'budget', 'ghost', 'nsub', '_key')

    def __init__(self, nodes, links, phys, budget, ghost, nsub):
        self.nodes = nodes      # tuple of (nid, node key)
        self.links = links      # tuple of ((src, dst), (msg bytes, ...)) sorted, non-empty only
        self.phys = phys        # frozenset of frozenset({a,b}) with an intact physical connection
        self.budget = budget    # tuple of (kind, remaining) sorted
        self.ghost = ghost      # model-defined immutable ghost state
        self.nsub = nsub        # number of submissions so far (next sid)
        self._key = None

    def key(self):
        if self._key is None:
            self._key = hashlib.blake2b(repr((self.nodes, self.links, sorted(tuple(sorted(p)) for p in self.phys),
                                              self.budget, self.ghost, self.nsub)).encode(), digest_size=16).digest()
        return self._key

    def nk(self, nid):
        for n, k in self.nodes:
            if n == nid:
                return k
        raise KeyError(nid)

    def with_node(self, nid, k):
        return tuple((n, (k if n == nid else kk)) for n, kk in self.nodes)

    def queue(self, a, b):
        for l, q in self.links:
            if l == (a, b):
                return q
        return ()


def set_queue(links, a, b, q):
    d = dict(links)
    if q:
        d[(a, b)] = tuple(q)
    else:
        d.pop((a, b), None)
    return tuple(sorted(d.items()))


def pair(a, b):
    return frozenset((a, b))


def dialer(a, b):
    """Which endpoint initiates: an observer always dials; between voters the larger address."""
    if a.startswith('o'):
        return a
    if b.startswith('o'):
        return b
    return max(a, b)


class ClusterModel(object):
    """core.Model over worlds. Subclasses / monitor objects define ghost state and checks."""

    def __init__(self, cfg, prefix, budget, monitors, name='cluster', stepper=None):
        self.cfg = cfg
        self.prefix = prefix            # callable(model, world) -> world   (scripted seed)
        self.budget0 = dict(budget)
        self.monitors = monitors
        self.name = name
        self.st = stepper or Stepper(cfg)
        self.prefix_events = []
        self.seed_shape_ok = True
        self.exceptions_seen = collections.Counter()

    # -- construction
    def fresh_world(self):
        ids = self.cfg.voter_ids() + self.cfg.observer_ids()
        members = self.cfg.members or self.cfg.voter_ids()
        nodes = []
        for nid in ids:
            b = build_node(self.cfg, nid, members)
            nodes.append((nid, self.st.put(b)))
        for i in range(self.cfg.spare):
            d = Bundle(addr(self.cfg.n + i + 1))
            d.alive = False
            d.extra = {'absent': 1}
            nodes.append((d.nid, self.st.put(d)))
        ghost = tuple(m.init_ghost(self) for m in self.monitors)
        budget = tuple(sorted((k, 0) for k in BUDGET_KINDS))
        return World(tuple(nodes), (), frozenset(), budget, ghost, 0)

    def initial(self):
        w = self.fresh_world()
        self.prefix_events = []
        if self.prefix is not None:
            w = self.prefix(self, w)
        b = dict(w.budget)
        for k, v in self.budget0.items():
            b[k] = v
        w = World(w.nodes, w.links, w.phys, tuple(sorted(b.items())), w.ghost, w.nsub)
        return w

    def key(self, w):
        return w.key()

    def summary(self, w, nid):
        return self.st.summ[w.nk(nid)]

    def summaries(self, w):
        return [self.st.summ[k] for _, k in w.nodes]

    # -- enabled events
    def events(self, w):
        bud = dict(w.budget)
        evs = []
        sums = self.summaries(w)
        for s in sums:
            if not s.alive:
                continue
            n = s.nid
            evs.append(('Z', n))
            if bud['H'] > 0 and (s.leader_flag or self.cfg.h_all):
                evs.append(('H', n))
            if bud['E'] > 0 and s.voter and not s.leader_flag:
                evs.append(('E', n))
            if bud['F'] > 0 and s.leader_flag:
                evs.append(('F', n))
            if bud['W'] > 0 and s.leader_flag:
                evs.append(('W', n))
            if bud['G'] > 0 and s.leader_flag:
                evs.append(('G', n))
            if bud['H'] > 0 and bud['X'] > 0 and s.leader_flag and self.cfg.send_faults:
                # a heartbeat during which the connection to one peer breaks at the k-th write (only where the
                # leader writes several messages to that peer in one call: chunks, batches)
                outm = self.st.step(w.nk(n), ('tick', self.cfg.period + EPS))[1]
                for p in sorted(s.connected):
                    cnt = sum(1 for dst, _ in outm if dst == p)
                    if cnt >= 2:
                        for kk in range(1, cnt):
                            evs.append(('HX', n, p, kk))
            if bud['S'] > 0:
                evs.append(('S', n))
                for meth in self.cfg.methods:
                    evs.append(('SM', n, meth))
            if bud['S'] > 0 and self.cfg.consumers:
                for oi in range(len(BATTERY_OPS[self.cfg.consumers])):
                    evs.append(('BO', n, oi))
            if bud['K'] > 0:
                evs.append(('K', n))
            if bud['J'] > 0 and self.cfg.journal:
                evs.append(('J', n))
            if bud['Q'] > 0 and self.cfg.journal and 'dump' in self.cfg.journal and not self.cfg.use_fork:
                evs.append(('Kx', n))
            if self.cfg.use_fork and len(s.extra) > 2 and any(k == 'child' for k, _ in s.extra):
                evs.append(('Cf', n))
                if bud['Q'] > 0:
                    for kk in range(self.st.step(w.nk(n), ('child',))[4]):
                        evs.append(('Ck', n, kk))
                    evs.append(('Ce', n))
            if bud['V'] > 0:
                for v in self.cfg.versions:
                    evs.append(('V', n, v))
        for (a, b), q in w.links:
            evs.append(('D', a, b))
        alive = set(s.nid for s in sums if s.alive)
        for s in sums:
            if s.alive:
                for p in sorted(s.connected):
                    if bud['X'] > 0:
                        evs.append(('X', s.nid, p))
                    elif pair(s.nid, p) not in w.phys and (p not in alive or s.nid not in self.summary(w, p).connected) \
                            and not w.queue(p, s.nid):
                        # the peer process died / restarted: noticing that costs no budget
                        evs.append(('X', s.nid, p, 'free'))
        if bud['R'] > 0:
            ids = [s.nid for s in sums if s.alive]
            for i, a in enumerate(ids):
                for b2 in ids[i + 1:]:
                    if self.can_reconnect(w, a, b2):
                        evs.append(('R', a, b2))
        if bud['P'] > 0:
            for s in sums:
                if s.alive and self.cfg.journal and s.voter and (self.cfg.kill_only is None or s.nid in self.cfg.kill_only):
                    evs.append(('P', s.nid))
                    for nev, label in self.node_events_of(w, s):
                        nw = self.st.step(w.nk(s.nid), nev)[4]
                        for kk in range(nw):
                            evs.append(('PK', s.nid, label, kk))
        for s in sums:
            if not s.alive and (bud['U'] > 0 or self.cfg.free_restart) and s.extra and s.extra[0][0] == 'durable':
                evs.append(('U', s.nid))
        for m in self.monitors:
            evs.extend(m.extra_events(self, w, bud, sums))
        return evs

    def node_events_of(self, w, s):
        """(node-local event, world label) pairs a kill can interrupt: ticks and deliveries."""
        cfg = self.cfg
        out = [(('tick', 0.0), ('Z', s.nid))]
        if s.leader_flag:
            out.append((('tick', cfg.period + EPS), ('H', s.nid)))
        out.append((('tick', 1.0 + EPS), ('J', s.nid)))
        for (a, b), q in w.links:
            if b == s.nid and q and not q[0].startswith(b'HELLO') and a in s.connected:
                out.append((('msg', a, q[0]), ('D', a, b)))
        return out

    def kill(self, w, nid, label=None, at=None):
        nev = None
        links = w.links
        if label is not None:
            if label[0] == 'D':
                q = w.queue(label[1], label[2])
                nev = ('msg', label[1], q[0])
                links = set_queue(links, label[1], label[2], q[1:])
            else:
                nev = ('tick', tick_dt(self.cfg, label))
        k = w.nk(nid)
        nk, out, obs = self.st.kill(k, nev, at)
        phys = frozenset(p for p in w.phys if nid not in p)
        d = dict(links)
        for dst, msg in out:
            if pair(nid, dst) in w.phys:
                d[(nid, dst)] = d.get((nid, dst), ()) + (msg,)
        for (a, b2) in list(d):
            if b2 == nid:
                del d[(a, b2)]
        links = tuple(sorted(d.items()))
        nw = World(w.with_node(nid, nk), links, phys, w.budget, w.ghost, w.nsub)
        pre, post = self.st.summ[k], self.st.summ[nk]
        ghost = []
        ev = ('PK', nid, label, at) if label is not None else ('P', nid)
        for m, g in zip(self.monitors, w.ghost):
            ghost.append(m.on_step(self, w, nw, nid, ev, pre, post, out, obs, None, g))
        nw.ghost = tuple(ghost)
        return nw

    def can_reconnect(self, w, a, b):
        if a.startswith('o') and b.startswith('o'):
            return False
        sa, sb = self.summary(w, a), self.summary(w, b)
        if not (sa.alive and sb.alive):
            return False
        if len(sa.extra) > 2 and ('fresh', 1) in sa.extra or len(sb.extra) > 2 and ('fresh', 1) in sb.extra:
            return False
        if b in sa.connected or a in sb.connected or pair(a, b) in w.phys:
            return False
        if w.queue(a, b) or w.queue(b, a):
            return False
        # membership: both sides must know each other (observers only need the voter)
        if not a.startswith('o') and not b.startswith('o'):
            if b not in sa.others or a not in sb.others:
                return False
        return True

    # -- applying an event
    def spend(self, w, kind, amount=1):
        b = dict(w.budget)
        if b[kind] < amount:
            return None
        b[kind] -= amount
        return tuple(sorted(b.items()))

    def node_step(self, w, nid, nev, budget=None, links=None, phys=None, nsub=None, label=None):
        """Run a node-local event, route its outbox, run monitors. Returns the new world."""
        k = w.nk(nid)
        nk, out, obs, exc, _nw = self.st.step(k, nev)
        links = w.links if links is None else links
        phys = w.phys if phys is None else phys
        post = self.st.summ[nk]
        # physical effects of dropNode
        for o in obs:
            if o[0] == 'dropnode':
                # the connection is closed by this side: what the peer (possibly dead by now) had still in
                # flight towards it is discarded with the socket
                phys = phys - {pair(nid, o[1])}
                links = set_queue(links, o[1], nid, ())
        if out:
            d = dict(links)
            for dst, msg in out:
                if pair(nid, dst) in phys:
                    d[(nid, dst)] = d.get((nid, dst), ()) + (msg,)
            links = tuple(sorted(d.items()))
        nw = World(w.with_node(nid, nk), links, phys, w.budget if budget is None else budget, w.ghost,
                   w.nsub if nsub is None else nsub)
        if exc is not None:
            self.exceptions_seen[exc.split(':')[0]] += 1
        pre = self.st.summ[k]
        ghost = []
        for m, g in zip(self.monitors, w.ghost):
            ghost.append(m.on_step(self, w, nw, nid, label or nev, pre, post, out, obs, exc, g))
        nw.ghost = tuple(ghost)
        return nw

    def _hx(self, w, ev, budget):
        a, p = ev[1], ev[2]
        # messages written before the failure are on the wire (routed with the link still up); afterwards the link is gone
        nw = self.node_step(w, a, ('tickx', self.cfg.period + EPS, p, ev[3]), budget=budget, label=ev)
        if nw is None:
            return None
        links = set_queue(nw.links, p, a, ())
        return World(nw.nodes, links, nw.phys - {pair(a, p)}, nw.budget, nw.ghost, nw.nsub)

    def apply(self, w, ev):
        kind = ev[0]
        cfg = self.cfg
        if kind == 'Z':
            return self.node_step(w, ev[1], ('tick', 0.0), label=ev)
        if kind == 'H':
            b = self.spend(w, 'H')
            return b and self.node_step(w, ev[1], ('tick', cfg.period + EPS), budget=b, label=ev)
        if kind == 'E':
            b = self.spend(w, 'E')
            return b and self.node_step(w, ev[1], ('tick', cfg.tmin + EPS), budget=b, label=ev)
        if kind == 'F':
            b = self.spend(w, 'F')
            return b and self.node_step(w, ev[1], ('tick', cfg.fallback + EPS), budget=b, label=ev)
        if kind == 'HX':
            b = self.spend(w, 'H')
            b = b and self.spend(World(w.nodes, w.links, w.phys, b, w.ghost, w.nsub), 'X')
            if not b:
                return None
            return self._hx(w, ev, b)
        if kind == 'G':   # a tick after a little more than half a heartbeat period
            b = self.spend(w, 'G')
            return b and self.node_step(w, ev[1], ('tick', tick_dt(cfg, ev)), budget=b, label=ev)
        if kind == 'W':
            b = self.spend(w, 'W')
            return b and self.node_step(w, ev[1], ('tick', cfg.period + EPS, cfg.period / 2.0), budget=b, label=ev)
        if kind == 'T':   # explicit dt [and random() answer] (scripts, closing runs); no budget
            if len(ev) > 3:
                return self.node_step(w, ev[1], ('tick', ev[2], 0.0, ev[3]), label=ev)
            return self.node_step(w, ev[1], ('tick', ev[2]), label=ev)
        if kind == 'D':
            a, b2 = ev[1], ev[2]
            q = w.queue(a, b2)
            if not q:
                return None
            msg, rest = q[0], q[1:]
            links = set_queue(w.links, a, b2, rest)
            sb = self.summary(w, b2)
            if not sb.alive:
                return World(w.nodes, links, w.phys, w.budget, w.ghost, w.nsub)
            if msg == b'HELLO' or msg == b'HELLO-RO':
                return self.node_step(w, b2, ('conn', a, msg == b'HELLO-RO'), links=links, label=ev)
            if a not in sb.connected:
                # cannot happen: queue to an endpoint that is down is cleared when it goes down
                raise core.HarnessError('delivery to a down endpoint %r' % (ev,))
            nw = self.node_step(w, b2, ('msg', a, msg), links=links, label=ev)
            if cfg.fuse and nw is not None:
                nw = self.node_step(nw, b2, ('tick', 0.0), label=('Z', b2))
            return nw
        if kind == 'X':
            a, b2 = ev[1], ev[2]
            bud = self.spend(w, 'X') if len(ev) < 4 else w.budget
            if bud is None or b2 not in self.summary(w, a).connected:
                return None
            links = set_queue(w.links, b2, a, ())
            phys = w.phys - {pair(a, b2)}
            # if the peer never learnt of this connection (HELLO still queued) its residue stays readable
            return self.node_step(w, a, ('disc', b2), budget=bud, links=links, phys=phys, label=ev)
        if kind == 'R':
            a, b2 = ev[1], ev[2]
            bud = self.spend(w, 'R') if len(ev) < 4 else w.budget
            if bud is None or not self.can_reconnect(w, a, b2):
                return None
            d = dialer(a, b2)
            acc = b2 if d == a else a
            phys = w.phys | {pair(a, b2)}
            links = set_queue(w.links, d, acc, (b'HELLO-RO' if d.startswith('o') else b'HELLO',))
            return self.node_step(w, d, ('conn', acc, False), budget=bud, links=links, phys=phys, label=ev)
        if kind == 'S':
            bud = self.spend(w, 'S') if len(ev) < 3 or ev[2] != 'free' else w.budget
            if bud is None:
                return None
            sid = w.nsub
            return self.node_step(w, ev[1], ('put', sid, 'put', (), ()), budget=bud, nsub=w.nsub + 1, label=ev)
        if kind == 'SM':
            bud = self.spend(w, 'S') if len(ev) < 4 else w.budget
            if bud is None:
                return None
            if ev[2].endswith('0'):
                return self.node_step(w, ev[1], ('call0', ('z', w.nsub), ev[2]), budget=bud, nsub=w.nsub + 1, label=ev)
            extra = (7,) if ev[2].endswith('2') else ()
            return self.node_step(w, ev[1], ('put', w.nsub, ev[2], extra, ()), budget=bud, nsub=w.nsub + 1, label=ev)
        if kind == 'BO':   # battery operation number ev[2] of the configured consumer set
            bud = self.spend(w, 'S') if ev[-1] != 'free' else w.budget
            if bud is None:
                return None
            ci, name, args = BATTERY_OPS[self.cfg.consumers][ev[2]]
            return self.node_step(w, ev[1], ('bop', ('b', w.nsub), ci, name, args), budget=bud, nsub=w.nsub + 1, label=ev)
        if kind == 'SA':   # ('SA', node, pickled (args, kwargs)): put with explicit arguments, no budget
            return self.node_step(w, ev[1], ('putp', w.nsub, 'put', ev[2]), nsub=w.nsub + 1, label=ev)
        if kind == 'K':
            bud = self.spend(w, 'K') if len(ev) < 3 else w.budget
            return bud and self.node_step(w, ev[1], ('compact',), budget=bud, label=ev)
        if kind == 'Cf':
            return self.node_step(w, ev[1], ('child',), label=ev)
        if kind == 'Ck':
            bud = self.spend(w, 'Q')
            return bud and self.node_step(w, ev[1], ('child', ev[2]), budget=bud, label=ev)
        if kind == 'Kx':
            bud = self.spend(w, 'Q')
            return bud and self.node_step(w, ev[1], ('compactfail',), budget=bud, label=ev)
        if kind == 'Ce':
            bud = self.spend(w, 'Q')
            return bud and self.node_step(w, ev[1], ('child', 'fail'), budget=bud, label=ev)
        if kind == 'V':
            bud = self.spend(w, 'V') if ev[-1] != 'free' else w.budget
            return bud and self.node_step(w, ev[1], ('setver', ev[2], ('v', w.nsub)), budget=bud, nsub=w.nsub + 1, label=ev)
        if kind == 'J':   # one-second step (journal meta flush timer)
            b = self.spend(w, 'J') if len(ev) < 3 else w.budget
            return b and self.node_step(w, ev[1], ('tick', 1.0 + EPS), budget=b, label=ev)
        if kind == 'P' or kind == 'PK':
            bud = self.spend(w, 'P') if ev[-1] != 'free' else w.budget
            if bud is None or not self.summary(w, ev[1]).alive:
                return None
            w2 = World(w.nodes, w.links, w.phys, bud, w.ghost, w.nsub)
            if kind == 'P':
                return self.kill(w2, ev[1])
            label = tuple(ev[2])
            if label[0] == 'D' and not w.queue(label[1], label[2]):
                return None
            return self.kill(w2, ev[1], label, ev[3])
        if kind == 'U':
            if self.summary(w, ev[1]).alive:
                return None
            bud = w.budget
            if not self.cfg.free_restart and ev[-1] != 'free':
                bud = self.spend(w, 'U')
                if bud is None:
                    return None
            k = w.nk(ev[1])
            nk = self.st.restart(k)
            nw = World(w.with_node(ev[1], nk), w.links, w.phys, bud, w.ghost, w.nsub)
            pre, post = self.st.summ[k], self.st.summ[nk]
            ghost = []
            for m, g in zip(self.monitors, w.ghost):
                ghost.append(m.on_step(self, w, nw, ev[1], ev, pre, post, (), (), None, g))
            nw.ghost = tuple(ghost)
            return nw
        for m in self.monitors:
            r = m.apply_extra(self, w, ev)
            if r is not NotImplemented:
                return r
        raise core.HarnessError('unknown event %r' % (ev,))

    def check(self, w):
        for m, g in zip(self.monitors, w.ghost):
            v = m.check(self, w, g)
            if v:
                return v
        return None

    def outcome(self, w):
        return tuple((s.commit, s.applied, s.term) for s in self.summaries(w))

    def decode_event(self, ev):
        return tuple(ev) if isinstance(ev, list) else ev

    # -- scripting helpers for seeds (every step is a normal event, recorded in the prefix)
    def do(self, w, *evs):
        for ev in evs:
            nw = self.apply(w, ev)
            if nw is None:
                self.seed_shape_ok = False
                continue
            v = self.check(nw)
            self.prefix_events.append(ev)
            w = nw
            if v:
                raise core.Violation('%s [in state %d of the scripted seed prefix]' % (
                    v.msg if isinstance(v, core.Violation) else v, len(self.prefix_events)), sig=getattr(v, 'sig', None))
        return w

    def connect_all(self, w, only=None):
        ids = [n for n, _ in w.nodes]
        for i, a in enumerate(ids):
            for b in ids[i + 1:]:
                if only is not None and not (a in only and b in only):
                    continue
                if self.can_reconnect(w, a, b):
                    w = self.do(w, ('R', a, b, 'free'))
        return self.drain(w, ticks=False)

    def drain(self, w, ticks=True, only=None, rounds=50, skip_links=()):
        """Deliver everything FIFO (links in sorted order) and zero-time tick every node until
        nothing changes."""
        for _ in range(rounds):
            before = w.key()
            progressed = True
            while progressed:
                progressed = False
                for (a, b), q in w.links:
                    if (a, b) in skip_links or (only is not None and (a not in only or b not in only)):
                        continue
                    w = self.do(w, ('D', a, b))
                    progressed = True
                    break
            if ticks:
                for n, _ in w.nodes:
                    if only is not None and n not in only:
                        continue
                    if self.summary(w, n).alive:
                        w = self.do(w, ('Z', n))
            if w.key() == before:
                return w
        self.seed_shape_ok = False
        return w

    def cut(self, w, a, b):
        """Both endpoints of a-b notice a drop."""
        if b in self.summary(w, a).connected:
            w = self.do(w, ('X', a, b, 'free'))
        if a in self.summary(w, b).connected:
            w = self.do(w, ('X', b, a, 'free'))
        return w

    def isolate(self, w, nid):
        for n, _ in w.nodes:
            if n != nid:
                w = self.cut(w, nid, n)
        return w

    def leader_of(self, w):
        ls = [s.nid for s in self.summaries(w) if s.alive and s.leader_flag]
        return ls[0] if len(ls) == 1 else None


def tick_dt(cfg, ev):
    k = ev[0]
    if k == 'Z':
        return 0.0
    if k == 'H' or k == 'W' or k == 'HX':
        return cfg.period + EPS
    if k == 'E':
        return cfg.tmin + EPS
    if k == 'G':
        return round(cfg.period * 0.55, 6)
    if k == 'F':
        return cfg.fallback + EPS
    if k == 'T':
        return ev[2]
    if k == 'J':
        return 1.0 + EPS
    return None


class Monitor(object):
    """Base class: ghost state + checks. All methods are pure w.r.t. worlds."""

    def init_ghost(self, model):
        return ()

    def on_step(self, model, pre_w, post_w, nid, ev, pre, post, out, obs, exc, ghost):
        return ghost

    def check(self, model, w, ghost):
        return None

    def extra_events(self, model, w, bud, sums):
        return []

    def apply_extra(self, model, w, ev):
        return NotImplemented
