"""Monitors (ghost state + oracles) for the cluster explorer.

SafetyMonitor carries the history-dependent summaries for C01-C04 in the world state (and
therefore in the state key, which is what makes deduplication sound for them). Clauses are
enabled per check so that a check only reports violations of its own property.
"""
import collections
import pickle

from mc import core
from mc.cluster import Monitor, cmd_sid, decode_cmd, pair

G = collections.namedtuple('G', 'committed applied_at leaders votes cbs neg regular')
# committed : tuple indexed by position -> (term, cmd) | None      (first report wins)
# regular   : tuple indexed by position -> term of the node that first reported the position committed
# applied_at: tuple indexed by position -> sid | None              (regular commands only)
# leaders   : tuple of (term, nid)
# votes     : tuple of ((voter, term), candidate)
# cbs       : tuple of (sid, res, err)
# neg       : frozenset of sids that got a "never applied" answer

NEG = None


def _neg():
    global NEG
    if NEG is None:
        from pysyncobj import FAIL_REASON as F
        NEG = {F.QUEUE_FULL: 'QUEUE_FULL', F.MISSING_LEADER: 'MISSING_LEADER', F.NOT_LEADER: 'NOT_LEADER',
               F.REQUEST_DENIED: 'REQUEST_DENIED', F.DISCARDED: 'DISCARDED'}
    return NEG


def tset(t, i, v):
    if i < len(t):
        return t[:i] + (v,) + t[i + 1:]
    return t + (None,) * (i - len(t)) + (v,)


def tget(t, i):
    return t[i] if 0 <= i < len(t) else None


def entry_at(s, p):
    """(term, cmd) a node holds in its log at position p, or None."""
    if s.first is None or p < s.first or p > s.last:
        return None
    i = p - s.first
    if i >= len(s.log) or s.log[i][0] != p:
        # a log with holes (only ever seen under seeded changes; the log-not-consecutive oracle reports it)
        for e in s.log:
            if e[0] == p:
                return (e[1], e[2])
        return None
    e = s.log[i]
    return (e[1], e[2])


def holds(s, p, e):
    """Does node s store entry e at position p (in its log, or under its snapshot)?"""
    if not s.alive or len(s.extra) > 2:
        dl = dict(s.extra).get('durable')
        if dl is None:
            if not s.alive:
                return False
        else:
            first, ents = dl
            if p < first:
                return True
            return tget(ents, p - first) == e
    if s.first is None:
        return False
    if p < s.first:
        return True
    return entry_at(s, p) == e


def last_key(s):
    """(last log term, last log index) of a voter, from its log or (dead / not yet ticked) its files."""
    if not s.alive or len(s.extra) > 2:
        dl = dict(s.extra).get('durable')
        if dl is not None:
            first, ents = dl
            if not ents:
                return None
            return (ents[-1][0], first + len(ents) - 1)
        if not s.alive:
            return None
    if not s.log:
        return None
    return (s.log[-1][1], s.log[-1][0])


def show(e):
    if e is None:
        return None
    k, p = decode_cmd(e[1])
    return (e[0], k, p[1][0] if k == 'reg' and p[1] else p)


class SafetyMonitor(Monitor):
    def __init__(self, clauses, voters=None, allow_exceptions=True):
        self.clauses = set(clauses)
        self.voters = voters
        self.allow_exceptions = allow_exceptions

    def init_ghost(self, model):
        return G((), (), (), (), (), frozenset(), ())

    def members(self, model, s):
        if model.cfg.dyn:
            return sorted(set(s.others) | {s.nid})
        return self.voters or model.cfg.voter_ids()

    def on_step(self, model, pre_w, post_w, nid, ev, pre, post, out, obs, exc, g):
        C = self.clauses
        if not post.alive:
            return g
        if len(post.extra) > 2 and ('fresh', 1) in post.extra:
            # constructed, first tick not yet run: the dump is not loaded, no message is read, nothing is sent; what
            # the node is after its restart is judged after that first tick (restart = construct + first tick)
            return g
        restarted = not pre.alive or (len(pre.extra) > 2 and ('fresh', 1) in pre.extra)
        sums = None
        committed, applied_at, leaders, votes, cbs, neg, regular = g

        # ---- a node never drops entries it knows to be committed (C04)
        if 'C04' in C and post.commit is not None and post.last is not None and post.last < post.commit and \
                not (post.commit != pre.commit or restarted):
            older = pre.alive and pre.applied is not None and post.applied is not None and post.applied < pre.applied
            raise core.Violation('C04 %s cut its log back to %d although it knows positions up to %d to be committed%s (%r)' % (
                nid, post.last, post.commit, ' (it installed a snapshot older than what it had applied)' if older else '', ev),
                sig='older-snapshot-installed' if older else 'commit-beyond-log')

        # ---- commit index advance (C04)
        if post.commit is not None and (restarted or post.commit != pre.commit):
            lo = (pre.commit if not restarted else 0)
            if post.commit < lo and 'C04' in C:
                raise core.Violation('C04 commit index of %s moved backwards %d -> %d at %r' % (nid, lo, post.commit, ev),
                                     sig='commit-backwards')
            for p in range(lo + 1, post.commit + 1):
                e = entry_at(post, p)
                old = tget(committed, p)
                if e is None:
                    if p > (post.last or 0) and 'C04' in C:
                        raise core.Violation('C04 %s reports position %d committed but its log ends at %r (%r)' % (
                            nid, p, post.last, ev), sig='commit-beyond-log')
                    # under the node's snapshot: nothing to compare
                    if old is None and p >= 2 and 'C04' in C and not restarted:
                        raise core.Violation('C04 %s reports position %d committed (under its snapshot) but no node ever '
                                             'reported it committed before (%r)' % (nid, p, ev), sig='commit-unknown-snapshot')
                    continue
                if old is None:
                    if p < 2:
                        pass      # position 1 is the placeholder entry every node is constructed with
                    elif 'C04' in C or 'C10' in C:
                        if sums is None:
                            sums = model.summaries(post_w)
                        mem = self.members(model, post)
                        cnt = sum(1 for s in sums if s.nid in mem and s.voter and holds(s, p, e))
                        ok = cnt * 2 > len(mem)
                        if not ok and model.cfg.dyn and pre.alive and pre.others != post.others:
                            # the member set changed later in the same step (a tick decides commits before
                            # it dequeues membership requests): the decision was taken with the old set
                            mem = self.members(model, pre)
                            cnt = sum(1 for s in sums if s.nid in mem and s.voter and holds(s, p, e))
                            ok = cnt * 2 > len(mem)
                        if not ok:
                            raise core.Violation('C04 %s advanced its commit index over position %d %r at %r but only %d of %d '
                                                 'voters %r store that entry: %r' % (
                                                     nid, p, show(e), ev, cnt, len(mem), mem,
                                                     [(s.nid, show(entry_at(s, p))) for s in sums if s.voter]),
                                                 sig='commit-without-majority')
                    if ('C04' in C or 'C03' in C) and not model.cfg.dyn and p >= 2:
                        # "...in a way no later leader can lack": no voter that lacks the entry may still be able
                        # to win an election, i.e. be at least as up-to-date (last term, last index) as a majority
                        if sums is None:
                            sums = model.summaries(post_w)
                        mem = self.members(model, post)
                        voters = [s for s in sums if s.nid in mem and s.voter]
                        keys = {s.nid: last_key(s) for s in voters}
                        for s in voters:
                            if keys[s.nid] is None or holds(s, p, e):
                                continue
                            beats = sum(1 for t in voters if keys[t.nid] is not None and keys[s.nid] >= keys[t.nid])
                            if beats * 2 > len(mem):
                                raise core.Violation('C04 %s reports position %d %r committed at %r, but %s does not store it and its log '
                                                     '(last term, index)=%r is at least as up-to-date as %d of %d voters %r: it can still be '
                                                     'elected and replace the entry' % (nid, p, show(e), ev, s.nid, keys[s.nid], beats, len(mem),
                                                                                        sorted(keys.items())), sig='committed-but-losable')
                    committed = tset(committed, p, e)
                    regular = tset(regular, p, post.term)
                elif old != e and 'C04' in C:
                    raise core.Violation('C04 position %d was reported committed as %r, now %s reports it committed as %r (%r)' % (
                        p, show(old), nid, show(e), ev), sig='committed-entry-changed')
        if not restarted and post.applied is not None and post.applied < pre.applied and 'C04' in C:
            sig = 'applied-backwards'
            if ev[0] == 'D' and post.first != pre.first and post.log and len(post.log) <= 2:
                # culprit signature of a recorded finding: a complete snapshot that is older than what the node
                # has applied was installed (log replaced by the snapshot's two entries)
                sig = 'older-snapshot-installed'
            raise core.Violation('C04 applied index of %s moved backwards %d -> %d at %r' % (nid, pre.applied, post.applied, ev),
                                 sig=sig)

        # ---- apply observations (C01) and callbacks (C02)
        for o in obs:
            if o[0] == 'apply' or o[0] == 'apply-raise':
                pos, sid = o[1], o[2]
                raw = sid
                if o[0] == 'apply-raise':
                    sid = ('x', sid)      # executed at this position, raised (leaves no trace in the object)
                old = tget(applied_at, pos)
                if old is None:
                    if 'C02' in C or 'C01' in C:
                        if sid in applied_at:
                            raise core.Violation('C02 submission %r applied at position %d and again at position %d (on %s, %r)' % (
                                raw, applied_at.index(sid), pos, nid, ev), sig='applied-twice')
                        if raw in neg and 'C02' in C:
                            raise core.Violation('C02 submission %r was reported as failed (never applied) but %s applies it at '
                                                 'position %d (%r)' % (raw, nid, pos, ev), sig='applied-after-negative')
                    applied_at = tset(applied_at, pos, sid)
                elif old != sid and 'C01' in C:
                    raise core.Violation('C01 position %d: a node applied submission %r, %s applies submission %r (%r)' % (
                        pos, old, nid, sid, ev), sig='different-command-same-position')
            elif o[0] == 'cb':
                _, sid, res, err = o
                if 'C02' in C and isinstance(sid, tuple):
                    if any(c[0] == sid for c in cbs):
                        raise core.Violation('C02 callback of request %r fired twice (%r)' % (sid, ev), sig='callback-twice')
                elif 'C02' in C:
                    if any(c[0] == sid for c in cbs):
                        raise core.Violation('C02 callback of submission %r fired twice (%r then %r) at %r' % (
                            sid, [c for c in cbs if c[0] == sid], (res, err), ev), sig='callback-twice')
                    if err == 0 and ('x', sid) in applied_at:
                        if not isinstance(res, Exception):
                            raise core.Violation('C02 SUCCESS result %r for submission %r whose method raised (%r)' % (res, sid, ev),
                                                 sig='success-wrong-result')
                    elif err == 0:
                        if sid not in applied_at:
                            raise core.Violation('C02 SUCCESS for submission %r which no node has applied (%r)' % (sid, ev),
                                                 sig='success-not-applied')
                        pos = applied_at.index(sid)
                        want = sum(1 for q in applied_at[:pos + 1] if q is not None and not isinstance(q, tuple))
                        if isinstance(sid, int) and res != want:
                            raise core.Violation('C02 SUCCESS result %r for submission %r, executing it at its position %d returns %r (%r)' % (
                                res, sid, pos, want, ev), sig='success-wrong-result')
                    elif err in _neg():
                        if sid in applied_at or ('x', sid) in applied_at:
                            raise core.Violation('C02 callback %s for submission %r which was applied at position %d (%r)' % (
                                _neg()[err], sid, applied_at.index(sid), ev), sig='negative-but-applied')
                if err in _neg():
                    neg = neg | {sid}
                cbs = cbs + ((sid, res if isinstance(res, (int, type(None), bool)) else repr(res), err),)

        # ---- a snapshot handed to a node (transfer or own dump file) is always a complete one (C09)
        if 'C09' in C:
            for o in obs:
                if o[0] == 'load-failed' and o[1] != 'Killed':
                    raise core.Violation('C09 %s was handed a snapshot it could not load (%s while loading the full dump) (%r)' % (
                        nid, o[1], ev), sig='snapshot-load-failed')

        # ---- per-node applied list == replay of the common sequence (C01)
        if 'C01' in C and (post.app != pre.app or post.applied != pre.applied or restarted):
            self.check_list(post, applied_at, ev)

        # ---- leaders and votes (C03)
        if 'C03' in C or 'C07' in C:
            if post.leader_flag and not (pre.leader_flag and pre.term == post.term):
                for t, n in leaders:
                    if t == post.term and n != nid:
                        raise core.Violation('C03 two leaders in term %d: %s and %s (%r)' % (t, n, nid, ev), sig='two-leaders')
                if (post.term, nid) not in leaders:
                    leaders = leaders + ((post.term, nid),)
                # leader completeness
                # leader completeness: entries committed under leaders of EARLIER terms
                for p in range(2, len(committed)):
                    e = committed[p]
                    if e is not None and tget(regular, p) is not None and regular[p] < post.term and not holds(post, p, e):
                        raise core.Violation('C03 %s became leader of term %d without position %d %r committed in term %d (its entry: %r) (%r)' % (
                            nid, post.term, p, show(e), regular[p], show(entry_at(post, p)), ev), sig='leader-incomplete')
            for o in obs:
                if o[0] == 'state' and o[2] == 1 and o[3] is not None:
                    # became candidate: it votes for itself in the term it starts (state changes before the
                    # term is incremented, so the term of the self-vote is the post-state term)
                    kk = (nid, post.term)
                    for k2, c in votes:
                        if k2 == kk and c != nid:
                            raise core.Violation('C03 %s voted for %s and for itself in term %d (%r)' % (nid, c, post.term, ev),
                                                 sig='double-vote')
                    if (kk, nid) not in votes:
                        votes = votes + ((kk, nid),)
            for dst, mb in out:
                if b'response_vote' in mb:
                    m = pickle.loads(mb)
                    if m.get('type') == 'response_vote':
                        kk = (nid, m['term'])
                        for k2, c in votes:
                            if k2 == kk and c != dst:
                                raise core.Violation('C03 %s voted for %s and for %s in term %d (%r)' % (nid, c, dst, m['term'], ev),
                                                     sig='double-vote')
                        if (kk, dst) not in votes:
                            votes = votes + ((kk, dst),)
                        if not post.voter:
                            raise core.Violation('C18 read-only node %s sent a vote (%r)' % (nid, ev), sig='observer-votes')

        # ---- log changes: log matching and retention of committed entries (C04)
        if 'C04' in C and (post.log != pre.log or restarted):
            for i, e in enumerate(post.log):
                if e[0] != post.first + i:
                    raise core.Violation('C04 log of %s is not a sequence of consecutive positions after %r: %r (cannot be identical to any '
                                         'other node log up to a position)' % (nid, ev, [(x[0], x[1]) for x in post.log]), sig='log-not-consecutive')
            if sums is None:
                sums = model.summaries(post_w)
            for s in sums:
                if s.nid != nid and s.alive:
                    self.log_matching(post, s, ev)
            if not model.cfg.dyn:
                mem = self.members(model, post)
                for p in range(2, len(committed)):
                    e = committed[p]
                    if e is None:
                        continue
                    if holds(post, p, e):
                        continue
                    cnt = sum(1 for s in sums if s.nid in mem and s.voter and holds(s, p, e))
                    if cnt * 2 <= len(mem):
                        raise core.Violation('C04 committed position %d %r is no longer stored by a majority after %r on %s '
                                             '(holders %d of %d): %r' % (p, show(e), ev, nid, cnt, len(mem),
                                                                         [(s.nid, show(entry_at(s, p))) for s in sums if s.voter]),
                                             sig='committed-entry-lost')
            # a node that reports p committed must not hold a different entry there
            for p in range(max(2, post.first or 2), min(post.commit, len(committed) - 1) + 1):
                e = committed[p]
                if e is not None and entry_at(post, p) not in (None, e):
                    raise core.Violation('C04 %s holds %r at committed position %d (committed entry %r) after %r' % (
                        nid, show(entry_at(post, p)), p, show(e), ev), sig='committed-entry-changed')
        return G(committed, applied_at, leaders, votes, cbs, neg, regular)

    def check_list(self, s, applied_at, ev):
        app = s.app
        last = 0
        for pos, sid in app:
            if pos <= last:
                raise core.Violation('C01 %s executed positions out of order / twice: %r (%r)' % (s.nid, app, ev), sig='list-order')
            last = pos
            if pos > s.applied + 1:
                raise core.Violation('C01 %s executed position %d beyond its applied index %d (%r)' % (s.nid, pos, s.applied, ev),
                                     sig='list-beyond-applied')
            if tget(applied_at, pos) != sid:
                raise core.Violation('C01 %s object state has submission %r at position %d, the common sequence has %r (%r)' % (
                    s.nid, sid, pos, tget(applied_at, pos), ev), sig='list-differs')
        have = set(p for p, _ in app)
        for p in range(2, min(len(applied_at), s.applied + 1)):
            if applied_at[p] is not None and not isinstance(applied_at[p], tuple) and p not in have:
                raise core.Violation('C01 %s has applied index %d but its object state lacks position %d (submission %r): %r (%r)' % (
                    s.nid, s.applied, p, applied_at[p], app, ev), sig='list-skips')

    def log_matching(self, a, b, ev):
        if a.first is None or b.first is None:
            return
        lo, hi = max(a.first, b.first), min(a.last, b.last)
        # highest common position with equal term
        m = None
        for p in range(hi, lo - 1, -1):
            if a.log[p - a.first][1] == b.log[p - b.first][1]:
                m = p
                break
        if m is None:
            return
        for p in range(lo, m + 1):
            if a.log[p - a.first] != b.log[p - b.first]:
                raise core.Violation('C04 log matching: %s and %s both hold term %d at position %d but differ at position %d: %r vs %r (%r)' % (
                    a.nid, b.nid, a.log[m - a.first][1], m, p, show(entry_at(a, p)), show(entry_at(b, p)), ev), sig='log-matching')


class ExceptionMonitor(Monitor):
    """No exception may escape a tick or a message handler (C11, C12, C13 clause)."""

    def __init__(self, prop, ignore=()):
        self.prop = prop
        self.ignore = ignore

    def on_step(self, model, pre_w, post_w, nid, ev, pre, post, out, obs, exc, g):
        if exc is not None and not any(i in exc for i in self.ignore):
            raise core.Violation('%s exception escaped %r on %s: %s' % (self.prop, ev, nid, exc),
                                 sig='exception:' + exc.split(':')[0] + exc[exc.rfind('@'):])
        return g


class ObserverMonitor(Monitor):
    """C18: a node without own address never votes, never asks for votes, never leads."""

    def on_step(self, model, pre_w, post_w, nid, ev, pre, post, out, obs, exc, g):
        if post.alive and not post.voter:
            if post.leader_flag:
                raise core.Violation('C18 read-only node %s reports itself leader (%r)' % (nid, ev), sig='observer-leads')
            for dst, mb in out:
                if b'request_vote' in mb or b'response_vote' in mb:
                    m = pickle.loads(mb)
                    if m.get('type') in ('request_vote', 'response_vote'):
                        raise core.Violation('C18 read-only node %s sent %s to %s (%r)' % (nid, m['type'], dst, ev),
                                             sig='observer-votes')
            # it only follows: entries come into its log from a voter's message, never from its own tick or a local call
            if pre.alive and ev[0] != 'D' and post.last is not None and pre.last is not None and post.last > pre.last:
                raise core.Violation('C18 read-only node %s appended entries %d..%d to its own log on its own (like a leader) at %r' % (
                    nid, pre.last + 1, post.last, ev), sig='observer-appends')
        if post.alive and post.voter and post.leader_flag and not (pre.leader_flag and pre.term == post.term):
            # became leader: must have been voted by a majority of VOTERS: votes are recorded by the safety monitor
            votes = post_w.ghost[0].votes
            voters = model.cfg.voter_ids()
            n = 1 + sum(1 for (v, t), c in votes if t == post.term and c == nid and v in voters)
            if n * 2 <= len(voters) and not model.cfg.dyn:
                raise core.Violation('C18 %s became leader of term %d with votes of %d of %d voters (%r)' % (
                    nid, post.term, n, len(voters), ev), sig='leader-without-voter-majority')
        return g


class BatteryMonitor(Monitor):
    """C15 (replicated part): replicas of a battery that have applied the same number of log
    entries hold the same contents. ghost: tuple of (applied index, battery states)."""

    def init_ghost(self, model):
        return ()

    def on_step(self, model, pre_w, post_w, nid, ev, pre, post, out, obs, exc, g):
        if not post.alive or post.applied is None:
            return g
        st = None
        for k, v in post.extra:
            if k == 'zbat':
                st = v
        if st is None:
            return g
        for a, s0 in g:
            if a == post.applied:
                if s0 != st:
                    raise core.Violation('C15 replicas differ: after applying %d log entries one replica holds %r, %s holds %r (%r)' % (
                        a, s0, nid, st, ev), sig='battery-replicas-differ')
                return g
        return tuple(sorted(g + ((post.applied, st),)))
