"""C10 - dynamic membership: extra events (add/remove requests via API or admin message, spawn
of an added node, shutdown of a removed node) and oracles."""
import pickle

from mc import core
from mc.cluster import Monitor, World, decode_cmd, pair, build_node, Bundle, addr
from mc.monitors import tget


def fold(members, entries):
    m = set(members)
    for kind, req in entries:
        if kind != 'member':
            continue
        op, nid = req
        if op == 'add':
            m.add(nid)
        elif op == 'rem':
            m.discard(nid)
    return m


class MembershipMonitor(Monitor):
    """ghost: (next request number is shared with submissions: w.nsub)"""

    def __init__(self, via=('api', 'admin'), targets=None, add_existing=False):
        self.via = via
        self.targets = targets
        self.add_existing = add_existing     # also request the addition of nodes that are members already

    def init_ghost(self, model):
        return ()

    # ---- events
    def universe(self, model):
        n = model.cfg.n
        return [addr(i + 1) for i in range(n + model.cfg.spare)]

    def extra_events(self, model, w, bud, sums):
        evs = []
        alive = {s.nid: s for s in sums}
        if bud['M'] > 0:
            for s in sums:
                if not s.alive or not s.voter:
                    continue
                for x in (self.targets or self.universe(model)):
                    for via in self.via:
                        if x != s.nid:
                            evs.append(('M', s.nid, 'rem', x, via))
                        if (x not in s.others or self.add_existing) and x != s.nid:
                            evs.append(('M', s.nid, 'add', x, via))
        # spawn an added node: empty, with the member list of a node that already lists it
        for s in sums:
            if not s.alive and dict(s.extra).get('absent'):
                for t in sums:
                    if t.alive and s.nid in t.others:
                        evs.append(('Sp', s.nid, t.nid))
                        break
        # shut down a node whose removal has committed
        com = w.ghost[0].committed
        removed = set()
        for e in com:
            if e is not None:
                k, p = decode_cmd(e[1])
                if k == 'member':
                    if p[0] == 'rem':
                        removed.add(p[1])
                    else:
                        removed.discard(p[1])
        for s in sums:
            if s.alive and s.nid in removed:
                evs.append(('Sd', s.nid))
        return evs

    def apply_extra(self, model, w, ev):
        k = ev[0]
        if k == 'M':
            bud = model.spend(w, 'M') if ev[-1] != 'free' else w.budget
            if bud is None:
                return None
            return model.node_step(w, ev[1], ('member', ev[2], ev[3], ('m', w.nsub), ev[4]), budget=bud, nsub=w.nsub + 1, label=ev)
        if k == 'Sp':
            x, src = ev[1], ev[2]
            s = model.summary(w, x)
            if s.alive:
                return None
            t = model.summary(w, src)
            members = sorted(set(t.others) | {t.nid})
            b = build_node(model.cfg, x, members, now=model.st.get(w.nk(src)).now, extra={'members0': tuple(members)})
            nk = model.st.put(b)
            return World(w.with_node(x, nk), w.links, w.phys, w.budget, w.ghost, w.nsub)
        if k == 'Sd':
            x = ev[1]
            if not model.summary(w, x).alive:
                return None
            d = Bundle(x)
            d.alive = False
            d.extra = {'shutdown': 1}
            nk = model.st.put(d)
            phys = frozenset(p for p in w.phys if x not in p)
            links = tuple((l, q) for l, q in w.links if l[1] != x)
            return World(w.with_node(x, nk), links, phys, w.budget, w.ghost, w.nsub)
        return NotImplemented

    # ---- oracles
    def on_step(self, model, pre_w, post_w, nid, ev, pre, post, out, obs, exc, g):
        if not post.alive:
            return g
        sg = post_w.ghost[0] if False else pre_w.ghost[0]
        # (2) gate: a membership entry appended by a leader
        if post.leader_flag and pre.alive and pre.last is not None and post.last > pre.last:
            for e in post.log:
                if e[0] > pre.last:
                    k, p = decode_cmd(e[2])
                    if k == 'member' and e[1] == post.term:
                        # earlier membership entries of its log must be committed
                        for e2 in post.log:
                            if e2[0] < e[0]:
                                k2, p2 = decode_cmd(e2[2])
                                if k2 == 'member' and e2[0] > post.commit:
                                    raise core.Violation('C10 leader %s accepted membership change %r at index %d while its earlier '
                                                         'change %r at index %d is not committed (commit index %d) (%r)' % (
                                                             nid, p, e[0], p2, e2[0], post.commit, ev), sig='change-while-pending')
                        # own-term entry applied
                        own = [e2[0] for e2 in post.log if e2[1] == post.term and decode_cmd(e2[2])[0] == 'noop']
                        if own and post.applied < own[0]:
                            raise core.Violation('C10 leader %s accepted membership change %r before applying the no-op of its '
                                                 'own term (index %d, applied %d) (%r)' % (nid, p, own[0], post.applied, ev),
                                                 sig='change-before-noop')
        # (3) member set == fold of the membership entries of the log over the base set
        # A node started again from a journal holds entries that took effect in its previous life; the
        # implementation makes them take effect again when they are re-applied (restarts are outside the
        # schedules C10 quantifies over, so that delay is not judged here): entries present at the restart
        # and not yet re-applied are 'dormant' and left out of the fold. What the snapshot (dump) holds
        # must be back after the first tick.
        dorm = dict(g)
        if ev[0] == 'U' or (len(post.extra) > 2 and ('fresh', 1) in post.extra):
            dorm[nid] = tuple((e[0], e[1]) for e in post.log)
        elif nid in dorm:
            have = set((e[0], e[1]) for e in post.log)
            left = tuple(x for x in dorm[nid] if x[0] > post.applied and x in have)
            if left:
                dorm[nid] = left
            else:
                del dorm[nid]
        g = tuple(sorted(dorm.items()))
        fresh = len(post.extra) > 2 and ('fresh', 1) in post.extra
        if not fresh and (post.log != pre.log or post.others != pre.others or not pre.alive or nid in dict(g) or
                          (len(pre.extra) > 2 and ('fresh', 1) in pre.extra)):
            self.check_members(model, post_w, post, ev, set(dorm.get(nid, ())))
        # (3b) the transport is told about every member that comes or goes (otherwise the node never dials it / refuses it)
        if pre.alive and not (len(pre.extra) > 2 and ('fresh', 1) in pre.extra):
            told_add = set(o[1] for o in obs if o[0] == 'addnode')
            told_drop = set(o[1] for o in obs if o[0] == 'dropnode')
            for x in set(post.others) - set(pre.others):
                if x not in told_add:
                    raise core.Violation('C10 %s now lists %s as a member but never told its transport (addNode): it will neither dial nor '
                                         'accept that node (%r)' % (nid, x, ev), sig='transport-not-told')
            for x in set(pre.others) - set(post.others):
                if x not in told_drop:
                    raise core.Violation('C10 %s no longer lists %s as a member but its transport still does (no dropNode) (%r)' % (
                        nid, x, ev), sig='transport-not-told')

        # (4) leader elected only with votes of a majority of its own member set, from members
        if post.leader_flag and not (pre.leader_flag and pre.term == post.term):
            votes = post_w.ghost[0].votes
            mem = set(post.others) | {nid}
            cnt = 1 + sum(1 for (v, t), c in votes if t == post.term and c == nid and v in mem and v != nid)
            if cnt * 2 <= len(mem):
                raise core.Violation('C10 %s became leader of term %d with votes of %d of its %d members %r (votes: %r) (%r)' % (
                    nid, post.term, cnt, len(mem), sorted(mem), [(v, c) for (v, t), c in votes if t == post.term], ev),
                    sig='leader-without-member-majority')
        return g

    def check_members(self, model, w, s, ev, dormant=()):
        if s.first is None:
            return
        base = set(model.cfg.members or model.cfg.voter_ids())
        m0 = dict(s.extra).get('members0') if len(s.extra) > 2 else None
        if m0 is not None and s.first == 1:
            base = set(m0)      # a spawned node starts from the member list it was given
        com = w.ghost[0].committed
        under = []
        for p in range(2, s.first):
            e = tget(com, p)
            if e is None:
                return      # unknown history under the snapshot (cannot happen: committed before compaction)
            under.append(decode_cmd(e[1]))
        want = fold(base, under + [decode_cmd(e[2]) for e in s.log if (e[0], e[1]) not in dormant])
        if dormant:
            # the dump a restarted node loaded was written with the member set of that moment, which may already
            # include entries that were appended but not applied then: any prefix of the dormant entries may be in effect
            have0 = set(s.others) | {s.nid}
            for cut in sorted(set(i for i, _ in dormant)):
                alt = fold(base, under + [decode_cmd(e[2]) for e in s.log if (e[0], e[1]) not in dormant or e[0] <= cut])
                if alt | {s.nid} == have0:
                    want = alt
                    break
        # a spawned node starts with the member list it was given; it converges once it has the log
        have = set(s.others) | {s.nid}
        if s.nid not in want:
            want = want | {s.nid}     # a node never drops itself from its own view
        if have != want:
            sig = 'member-set-differs'
            # culprit signature of a recorded finding: a membership command re-executed at apply time although a
            # later command about the same node is already in the log (and was executed when it was appended)
            ents = [(e[0], decode_cmd(e[2])) for e in s.log]
            for x in have ^ want:
                about = [(i, c[1][0]) for i, c in ents if c[0] == 'member' and c[1][1] == x]
                applied = [a for a in about if a[0] <= s.applied]
                if len(about) >= 2 and applied and applied[-1] != about[-1] and \
                        ((applied[-1][1] == 'rem') == (x not in have)):
                    sig = 'member-reapply-overrides-later-change'
            raise core.Violation('C10 %s member set %r differs from the membership commands in its log %r (%r)' % (
                s.nid, sorted(have), sorted(want), ev), sig=sig)
