"""Seed states: short scripted prefixes in the explorer's own alphabet, so that every seed is a
genuinely reachable implementation state and monitors are active during the prefix."""
from mc import core
from mc.cluster import addr, World

N1, N2, N3, N4, N5 = (addr(i) for i in range(1, 6))


def fresh(m, w):
    return m.connect_all(w)


def elect(m, w, nid, only=None):
    w = m.do(w, ('T', nid, m.cfg.tmin + 0.001))
    w = m.drain(w, only=only)
    if not m.summary(w, nid).leader_flag:
        m.seed_shape_ok = False
    return w


def beat(m, w, nid, only=None, times=1):
    for _ in range(times):
        w = m.do(w, ('T', nid, m.cfg.period + 0.001))
        w = m.drain(w, only=only)
    return w


def submit(m, w, nid, count=1, only=None, settle=True):
    for _ in range(count):
        w = m.do(w, ('S', nid, 'free'))
        w = m.do(w, ('Z', nid))
    if settle:
        ld = m.leader_of(w) or nid
        w = m.drain(w, only=only)
        w = beat(m, w, ld, only=only, times=3)
    return w


def steady(m, w, k=1, leader=N1):
    w = m.connect_all(w)
    w = elect(m, w, leader)
    w = beat(m, w, leader, times=2)
    if k:
        w = submit(m, w, leader, k)
    return w


def lagging(m, w, k=1, j=2, lag=None, leader=N1):
    """Follower `lag` is cut off before the last j committed entries."""
    lag = lag or addr(m.cfg.n)
    w = steady(m, w, k, leader)
    w = m.isolate(w, lag)
    others = [n for n, _ in w.nodes if n != lag]
    w = submit(m, w, leader, j, only=others)
    return w


def compact(m, w, nid, only=None):
    w = m.do(w, ('K', nid, 'free'))
    w = m.do(w, ('Z', nid), ('Z', nid), ('Z', nid))
    return w


def lagging_snap(m, w, k=1, j=2, lag=None, leader=N1, after=0):
    w = lagging(m, w, k, j, lag, leader)
    w = compact(m, w, leader)
    if after:
        # more entries after the snapshot point: the lagging node needs the snapshot AND ordinary entries
        lag = lag or addr(m.cfg.n)
        others = [n for n, _ in w.nodes if n != lag]
        w = submit(m, w, leader, after, only=others)
    return w


def blackhole(m, w, nid):
    """The peers of `nid` notice a drop, `nid` itself does not: it still believes it is connected
    while everything it sends is lost."""
    for n, _ in w.nodes:
        if n != nid and nid in m.summary(w, n).connected:
            w = m.do(w, ('X', n, nid, 'free'))
    return w


def deposed(m, w, k=1, tail=2, newk=1, old=N1, new=N2, black=False):
    """Old leader isolated with an uncommitted tail; the rest elected `new` and committed
    different entries. All links of `old` are down (black=True: only the peers noticed)."""
    w = steady(m, w, k, old)
    w = blackhole(m, w, old) if black else m.isolate(w, old)
    for _ in range(tail):
        w = m.do(w, ('S', old, 'free'))
        w = m.do(w, ('Z', old))
    rest = [n for n, _ in w.nodes if n != old]
    w = elect(m, w, new, only=rest)
    w = beat(m, w, new, only=rest, times=2)
    if newk:
        w = submit(m, w, new, newk, only=rest)
    return w


def deposed_obs(m, w, tail=2, newk=1, old=N1, new=N2):
    """A leader cut off from the other voters but still connected to the read-only nodes: its
    uncommitted tail is in flight to them (not delivered). The other voters elected `new`, which
    committed different entries at the same positions; what `new` sent to the read-only nodes is also
    still in flight, so the explorer decides the order in which the observers hear the two leaders."""
    w = steady(m, w, 1, old)
    voters = [n for n, _ in w.nodes if not n.startswith('o')]
    obs = [n for n, _ in w.nodes if n.startswith('o')]
    for v in voters:
        if v != old:
            w = m.cut(w, old, v)
    for _ in range(tail):
        w = m.do(w, ('S', old, 'free'))
        w = m.do(w, ('Z', old))
    w = m.do(w, ('T', old, m.cfg.period + 0.001))
    rest = [n for n in voters if n != old]
    w = elect(m, w, new, only=rest)
    w = beat(m, w, new, only=rest, times=2)
    if newk:
        w = submit(m, w, new, newk, only=rest)
    return w


def deposed_twice(m, w, k=1, tail=3, newk=3, newk2=2, old=N1, new=N2, newer=N3):
    """As deposed, then a third node takes over from `new` and appends more: the old leader's
    log conflicts several entries below the current leader's optimistic nextIndex."""
    w = deposed(m, w, k, tail, newk, old, new)
    rest = [n for n, _ in w.nodes if n != old]
    w = elect(m, w, newer, only=rest)
    w = beat(m, w, newer, only=rest, times=2)
    if newk2:
        w = submit(m, w, newer, newk2, only=rest)
    return w


def deposed_snap(m, w, k=1, tail=2, newk=2, old=N1, new=N2):
    w = deposed(m, w, k, tail, newk, old, new)
    w = compact(m, w, new)
    return w


def pending(m, w, k=0, unrep=3, leader=N1):
    """Leader holds several entries that were never sent (no heartbeat since)."""
    w = steady(m, w, k, leader)
    for _ in range(unrep):
        w = m.do(w, ('S', leader, 'free'))
    w = m.do(w, ('Z', leader))
    return w


def reconnect_pipeline(m, w, k=1, unrep=4, lag=None, leader=N1):
    """Follower cut off, leader appends several entries (optimistic nextIndex past the
    follower's end after reconnect), links down: reconnect is left to the explorer."""
    lag = lag or addr(m.cfg.n)
    w = steady(m, w, k, leader)
    w = m.isolate(w, lag)
    others = [n for n, _ in w.nodes if n != lag]
    w = submit(m, w, leader, unrep, only=others)
    return w


def forwarded(m, w, k=0, leader=N1, via=N2, meth=None, count=1):
    """A follower has forwarded a command (`count` commands; `meth`: a method other than put, e.g. a
    raising one); nothing delivered yet."""
    w = steady(m, w, k, leader)
    for _ in range(count):
        w = m.do(w, ('SM', via, meth, 'free') if meth else ('S', via, 'free'))
    w = m.do(w, ('Z', via))
    return w


def forwarded_acked(m, w, leader=N1, via=N2, new=N3, meth=None, count=2):
    """A follower forwarded `count` commands; the leader appended them and told the follower their
    positions, but was cut off before it replicated any of them. `new` was elected (vote of the follower):
    its no-op sits on the first of those positions; the follower's callbacks are still waiting there."""
    w = forwarded(m, w, 0, leader, via, meth, count)
    for _ in range(count):
        w = m.do(w, ('D', via, leader))
    w = m.do(w, ('Z', leader))
    while w.queue(leader, via):
        w = m.do(w, ('D', leader, via))
    w = m.isolate(w, leader)
    w = elect(m, w, new, only=[new, via])
    if m.summary(w, via).leader != new:
        m.seed_shape_ok = False
    return w


def forwarded_stale(m, w, leader=N1, via=N2, new=N3, beats=0):
    """A follower forwarded a command; the leader accepted it and its answer is still in flight when
    another node is elected and the follower learns of it (its pending request has failed with
    LEADER_CHANGED). What the old leader sent stays in flight: the explorer decides when the stale
    answer arrives relative to the follower's next requests."""
    w = forwarded(m, w, 0, leader, via)
    w = m.do(w, ('D', via, leader), ('Z', leader))
    if not w.queue(leader, via):
        m.seed_shape_ok = False
    w = elect(m, w, new, only=[new, via])      # the follower holds the new leader's no-op, not yet committed
    if beats:
        w = beat(m, w, new, only=[new, via], times=beats)     # ... or has applied it already
    if m.summary(w, via).leader != new:
        m.seed_shape_ok = False
    return w


def deposed_runahead(m, w, old=N1, new=N2, third=N3, tail=3, newk=2):
    """`old` is cut off with an uncommitted tail and only `old` has noticed (the others keep sending into
    the void). `new` was elected with the vote of `third`, which was cut off before it received anything of
    the new term. `new` appended its no-op and `newk` commands that nobody else stores, and its next index
    for `old` has run ahead of what `old` holds (heartbeats into the void). Whatever `old` answers when the
    link comes back, nothing of the new term may be committed before somebody else really stores it."""
    w = steady(m, w, 1, old)
    for n in (new, third):
        w = m.do(w, ('X', old, n, 'free'))
    for _ in range(tail):
        w = m.do(w, ('S', old, 'free'))
    w = m.do(w, ('Z', old))
    w = m.do(w, ('T', new, m.cfg.tmin + 0.001))
    w = m.do(w, ('D', new, third), ('D', third, new))
    if not m.summary(w, new).leader_flag:
        m.seed_shape_ok = False
    w = m.cut(w, new, third)
    for _ in range(newk):
        w = m.do(w, ('S', new, 'free'))
    w = m.do(w, ('Z', new))
    for _ in range(3):
        w = m.do(w, ('T', new, m.cfg.period + 0.001))
    return w


def split_vote5(m, w, cand=N1):
    """5 voters. `cand` campaigned in term 1 and got one foreign vote (n2), no majority; the link to n2 is cut since.
    Only n3 is still connected to `cand`; n3 has not heard the term-1 request (lost). The explorer lets `cand` time
    out again: whatever it collects in term 2 must be a majority of term-2 votes."""
    ids = [n for n, _ in w.nodes]
    n2, n3 = ids[1], ids[2]
    w = m.connect_all(w, only=[cand, n2, n3])
    w = m.cut(w, cand, n3)
    w = m.do(w, ('T', cand, m.cfg.tmin + 0.001))
    w = m.do(w, ('D', cand, n2), ('D', n2, cand))
    w = m.cut(w, cand, n2)
    w = m.do(w, ('R', cand, n3, 'free'))
    w = m.drain(w, only=[cand, n3], ticks=False)
    if m.summary(w, cand).leader_flag:
        m.seed_shape_ok = False
    return w


def lateack_resend(m, w, leader=N1, other=N2, slow=N3, k=4):
    """`slow` receives everything but its answers to the leader are held back from the start (the leader's match
    index for it is 0, its next index optimistic). k commands are committed (leader + other) and stored by `slow`.
    The explorer delivers the held answers: the first one pulls the leader's next index back and the leader sends
    again, in small batches, what `slow` already stores."""
    hold = ((slow, leader),)
    w = m.connect_all(w)
    w = m.do(w, ('T', leader, m.cfg.tmin + 0.001))
    w = m.drain(w, skip_links=hold)
    for _ in range(k):
        w = m.do(w, ('S', leader, 'free'))
    w = m.do(w, ('Z', leader))
    for _ in range(4):
        w = m.do(w, ('T', leader, m.cfg.period + 0.001))
        w = m.drain(w, skip_links=hold)
    if m.summary(w, slow).commit < 2 + k or not w.queue(slow, leader):
        m.seed_shape_ok = False
    return w


def late_vote5(m, w, cand=N1):
    """5 voters. `cand` wins its election with the votes of n2 and n3; the vote of n4 is still in flight and n5 never
    heard the request. Then `cand` is cut off from n2, n3 and n5 (only the link to n4 is left, with the late vote on it)."""
    ids = [n for n, _ in w.nodes]
    n2, n3, n4, n5 = ids[1], ids[2], ids[3], ids[4]
    w = m.connect_all(w)
    w = m.cut(w, cand, n5)
    w = m.do(w, ('T', cand, m.cfg.tmin + 0.001))
    for v in (n2, n3, n4):
        w = m.do(w, ('D', cand, v))
    for v in (n2, n3):
        w = m.do(w, ('D', v, cand))
    if not m.summary(w, cand).leader_flag or not w.queue(n4, cand):
        m.seed_shape_ok = False
    for v in (n2, n3):
        w = m.cut(w, cand, v)
    return w


def vote_requested(m, w, cand=N1, voter=N2, other=N3):
    """`cand` campaigns; its vote request to `voter` is in flight; `other` never hears `cand` (link down)
    and is connected to `voter` only: it can become a second candidate of the same term."""
    w = m.connect_all(w)
    w = m.cut(w, cand, other)
    w = m.do(w, ('T', cand, m.cfg.tmin + 0.001))
    if not w.queue(cand, voter):
        m.seed_shape_ok = False
    return w


def fig8(m, w):
    """Raft figure 8 prefix on 3 nodes. a=n1 led term 1 and holds X (index 3) that nobody else has;
    c=n3 led term 2 and holds its no-op (3) and Y (4) that nobody else has and is a follower again;
    b=n2 holds neither. a has just been re-elected (by b) and its next index for b has been reset to
    3, so its next heartbeat sends X (old term) and its own no-op. With a small batch size they
    travel in separate messages. Links: a-b up, everything to c down."""
    a, b, c = N1, N2, N3
    w = m.connect_all(w)
    w = elect(m, w, a)
    w = beat(m, w, a, times=2)
    # a alone appends X
    w = m.isolate(w, a)
    w = m.do(w, ('S', a, 'free'), ('Z', a))
    # c is elected by b in term 2 and cut off before its no-op reaches b; appends Y alone
    w = m.do(w, ('T', c, m.cfg.tmin + 0.001))
    w = m.do(w, ('D', c, b), ('D', b, c))
    w = m.cut(w, c, b)
    w = m.do(w, ('S', c, 'free'), ('Z', c))
    # a and c both get connected to b again; b times out (term 3): a and c step down, neither votes for b
    w = m.do(w, ('R', b, c, 'free'), ('D', c, b))
    w = m.do(w, ('R', a, b, 'free'), ('D', b, a))
    w = m.do(w, ('T', b, m.cfg.tmin + 0.001))
    w = m.do(w, ('D', b, c), ('D', b, a))
    w = m.cut(w, b, c)
    # a times out (term 4) and is elected by b
    w = m.do(w, ('T', a, m.cfg.tmin + 0.001))
    w = m.drain(w, only=[a, b], ticks=False)
    if not m.summary(w, a).leader_flag or m.summary(w, c).leader_flag or m.summary(w, b).last != 2:
        m.seed_shape_ok = False
    return w


def fig8_full(m, w):
    """The complete figure-8 schedule, scripted: after `fig8`, a's old-term entry X reaches b (its own
    no-op is lost), a is cut off, c is elected by b and overwrites position 3. On a correct
    implementation a never applies X. Exploration then continues from the end state."""
    a, b, c = N1, N2, N3
    w = fig8(m, w)
    w = m.do(w, ('T', a, m.cfg.period + 0.001))
    # only the messages that carry X reach b (all but the last one, which carries a's no-op)
    n = len(w.queue(a, b))
    for _ in range(max(0, n - 1)):
        w = m.do(w, ('D', a, b))
    while w.queue(b, a):
        w = m.do(w, ('D', b, a))
    w = m.do(w, ('Z', a), ('Z', a))
    w = m.cut(w, a, b)
    w = m.do(w, ('R', b, c, 'free'))
    w = m.drain(w, only=[b, c], ticks=False)
    w = m.do(w, ('T', c, m.cfg.tmin + 0.001))
    w = m.drain(w, only=[b, c], ticks=False)
    w = m.do(w, ('T', c, m.cfg.tmin + 0.001))
    w = m.drain(w, only=[b, c])
    w = beat(m, w, c, only=[b, c], times=3)
    if not m.summary(w, c).leader_flag:
        m.seed_shape_ok = False
    return w


def ahead_full(m, w, leader=N1, lag=None):
    """After `ahead`: two heartbeats are answered with 'retry from 4' each, so two overlapping
    resends (prev=3, [4..7]) are in flight; the lagging node takes the first, applies, compacts its
    log, then receives the second one, whose previous index lies before its first entry. One more
    command follows."""
    lag = lag or addr(m.cfg.n)
    w = ahead(m, w, leader=leader, lag=lag)
    hb = ('T', leader, m.cfg.period + 0.001)
    w = m.do(w, hb, hb)
    while w.queue(leader, lag):
        w = m.do(w, ('D', leader, lag))
    q = len(w.queue(lag, leader))
    if q < 2:
        m.seed_shape_ok = False
        return w
    w = m.do(w, ('D', lag, leader))          # first 'retry from 4'
    w = m.do(w, hb)                           # resend 1
    w = m.do(w, ('D', lag, leader))          # second 'retry from 4'
    w = m.do(w, hb)                           # resend 2
    w = m.do(w, ('D', leader, lag))          # lag takes resend 1
    w = m.do(w, ('Z', lag), ('K', lag, 'free'), ('Z', lag), ('Z', lag), ('Z', lag))
    while w.queue(leader, lag):
        w = m.do(w, ('D', leader, lag))       # resend 2 arrives after the compaction
    w = m.drain(w, only=[leader, lag])
    w = submit(m, w, leader, 1)
    return w


def stale_snapshot(m, w, leader=N1, lag=None):
    """A duplicate 'retry from 4' answer of the lagging node stays in flight (its link towards the
    leader is slow) while the node catches up by entries, the leader compacts, and two more entries
    are committed and applied everywhere. When the stale answer finally arrives the leader's next
    index for that node falls below its log start: the next heartbeat will send a snapshot that is
    OLDER than what the node has applied. Left to the explorer: that heartbeat and the deliveries."""
    lag = lag or addr(m.cfg.n)
    w = ahead(m, w, leader=leader, lag=lag)
    hb = ('T', leader, m.cfg.period + 0.001)
    others = [n for n, _ in w.nodes if n != lag]
    w = m.do(w, hb, hb)
    while w.queue(leader, lag):
        w = m.do(w, ('D', leader, lag))
    if len(w.queue(lag, leader)) < 2:
        m.seed_shape_ok = False
        return w
    w = m.do(w, ('D', lag, leader))           # first 'retry from 4'; the second one stays in flight
    w = m.drain(w, only=others)
    w = m.do(w, hb)                            # resend 4..7
    while w.queue(leader, lag):
        w = m.do(w, ('D', leader, lag))
    w = m.drain(w, only=others)
    w = m.do(w, ('Z', lag))
    w = compact(m, w, leader)                  # snapshot at the current position
    for _ in range(2):
        w = m.do(w, ('S', leader, 'free'), ('Z', leader))
    for _ in range(3):
        w = m.do(w, hb)
        while w.queue(leader, lag):
            w = m.do(w, ('D', leader, lag))
        w = m.drain(w, only=others)
        w = m.do(w, ('Z', lag))
    w = m.do(w, ('D', lag, leader))           # the stale duplicate arrives at last
    return w


def stale_vote5(m, w):
    """5 voters. n4 led term 1 (its no-op is on n1..n4, n5 missed it). n1 and n3 both ran for term 2:
    n1 won with n2 and n4, n3 got n5's vote and its request to n2 is still in flight. n5 then ran for
    term 3 and n2 has moved to term 3 without voting (n5's log is behind). The old term-2 request of
    n3 is about to reach n2."""
    w = m.connect_all(w)
    w = m.cut(w, N4, N5)
    four = [N1, N2, N3, N4]
    w = elect(m, w, N4, only=four)
    w = beat(m, w, N4, only=four, times=2)
    w = m.do(w, ('T', N1, m.cfg.tmin + 0.001), ('T', N3, m.cfg.tmin + 0.001))
    w = m.do(w, ('D', N1, N2), ('D', N1, N4), ('D', N2, N1), ('D', N4, N1))
    w = m.do(w, ('D', N3, N5), ('D', N5, N3))
    w = m.do(w, ('T', N5, m.cfg.tmin + 0.001))
    w = m.do(w, ('D', N5, N2))
    s2 = m.summary(w, N2)
    if not m.summary(w, N1).leader_flag or s2.term != 3 or not w.queue(N3, N2):
        m.seed_shape_ok = False
    return w


def stale_reset5(m, w):
    """5 voters, four terms (L=n1, X=n2, Y=n3, E=n4, A=n5). A's answer 'retry from 2' to L's heartbeat
    of term 1 stays in flight while X (term 2) gives A two entries that never reach anybody else, Y
    (term 3) commits other entries at those positions with L and E, and L (term 4) leads again. When
    the old answer arrives L restarts A from index 2; with a small batch size its first message covers
    only entries A already has, but carries a commit index beyond A's stale tail."""
    L, X, Y, E, A = N1, N2, N3, N4, N5
    hb = m.cfg.period + 0.001
    el = m.cfg.tmin + 0.001
    w = m.connect_all(w)
    # term 1: L leads; its first message to A is lost, A answers the next heartbeat with 'retry from 2'
    w = m.do(w, ('T', L, el))
    for n in (X, Y, E):
        w = m.do(w, ('D', L, n), ('D', n, L))
    w = m.cut(w, L, A)
    w = m.drain(w, only=[L, X, Y, E])
    w = submit(m, w, L, 2, only=[L, X, Y, E])     # two commands of term 1 that A will later get from X
    w = m.do(w, ('R', L, A, 'free'))
    w = m.drain(w, only=[L, A], ticks=False)
    w = m.do(w, ('T', L, hb))
    w = m.do(w, ('D', L, A))                      # A: unknown index -> 'retry from 2' (stays in flight)
    w = m.drain(w, only=[L, X, Y, E])
    # term 2: X leads with Y, E, A; L hears nothing
    for n in (X, Y, E):
        w = m.cut(w, L, n)
    w = m.do(w, ('T', X, el))
    w = m.drain(w, only=[X, Y, E, A], skip_links=((A, L),))
    w = beat(m, w, X, only=[X, Y, E, A], times=2)
    # only A receives two more entries of X
    w = m.cut(w, X, Y)
    w = m.cut(w, X, E)
    w = m.do(w, ('S', X, 'free'), ('S', X, 'free'), ('Z', X), ('T', X, hb))
    while w.queue(X, A):
        w = m.do(w, ('D', X, A))
    # term 3: Y leads with L and E and commits other entries at those positions; nothing of Y reaches A
    w = m.cut(w, Y, A)
    w = m.cut(w, X, A)
    for n in (Y, E):
        w = m.do(w, ('R', L, n, 'free'))
    w = m.drain(w, only=[L, Y, E], ticks=False, skip_links=((A, L),))
    w = m.do(w, ('T', Y, el))
    w = m.drain(w, only=[L, Y, E], skip_links=((A, L),))
    w = beat(m, w, Y, only=[L, Y, E], times=2)
    w = submit(m, w, Y, 2, only=[L, Y, E])
    # term 4: L leads again (votes of Y and E)
    w = m.do(w, ('T', L, el))
    for n in (Y, E):
        while w.queue(L, n):
            w = m.do(w, ('D', L, n))
        while w.queue(n, L):
            w = m.do(w, ('D', n, L))
    w = m.drain(w, only=[L, Y, E])
    w = beat(m, w, L, only=[L, Y, E], times=2)
    if not m.summary(w, L).leader_flag or not w.queue(A, L):
        m.seed_shape_ok = False
    return w


def reelected5(m, w):
    """5 voters. A=n1 led term 1 and got four entries acknowledged by B=n2 only (never committed);
    C=n3 led term 2 with D, E and replaced them on A; A leads again (term 3, votes of D and E) and has a
    new entry that only D is about to receive, while B is still cut off. Acknowledgements of B from
    A's first leadership must not count now."""
    A, B, C, D, E = N1, N2, N3, N4, N5
    hb = m.cfg.period + 0.001
    el = m.cfg.tmin + 0.001
    w = m.connect_all(w)
    w = elect(m, w, A)
    w = beat(m, w, A, times=2)
    for x in (A, B):
        for y in (C, D, E):
            w = m.cut(w, x, y)
    for _ in range(4):
        w = m.do(w, ('S', A, 'free'))
    w = m.do(w, ('Z', A))
    w = beat(m, w, A, only=[A, B], times=2)
    w = elect(m, w, C, only=[C, D, E])
    w = beat(m, w, C, only=[C, D, E], times=2)
    w = submit(m, w, C, 1, only=[C, D, E])
    # A rejoins C, D, E (B stays away): its entries are replaced
    w = m.cut(w, A, B)
    for y in (C, D, E):
        w = m.do(w, ('R', A, y, 'free'))
    w = m.drain(w, only=[A, C, D, E], ticks=False)
    w = beat(m, w, C, only=[A, C, D, E], times=4)
    # A is elected again by D and E
    w = m.do(w, ('T', A, el))
    w = m.drain(w, only=[A, C, D, E], ticks=False)
    w = m.cut(w, A, C)
    w = m.cut(w, A, E)
    w = m.do(w, ('S', A, 'free'), ('Z', A))
    if not m.summary(w, A).leader_flag:
        m.seed_shape_ok = False
    return w


def reelected_cache3(m, w):
    """3 voters, entries larger than the batch size (every command travels in chunks). A=n1 led term 1,
    appended two commands (4, 5) and chunk-sent both into a black hole (optimistic next index). B=n2 was
    elected with C's vote, C=n3 received B's no-op (4) and was then cut off. A rejoined B, dropped its
    two commands and adopted B's no-op (4) and B's own command (5), committed by A+B. A leads again
    (term 3, vote of B). C still lacks 5 (a chunked command) and 6; the explorer reconnects it: whatever A kept per log index
    from its first leadership (position 5 held another command then) must not be sent now."""
    A, B, C = N1, N2, N3
    hb = m.cfg.period + 0.001
    el = m.cfg.tmin + 0.001
    w = steady(m, w, 1, A)
    w = blackhole(m, w, A)
    w = m.do(w, ('S', A, 'free'), ('S', A, 'free'), ('Z', A))
    for _ in range(3):
        w = m.do(w, ('T', A, hb))
    # B campaigns, C votes, B wins; C is cut off before B's first append_entries reaches it
    w = m.do(w, ('T', B, el))
    w = m.do(w, ('D', B, C), ('D', C, B))
    if not m.summary(w, B).leader_flag:
        m.seed_shape_ok = False
    w = m.do(w, ('D', B, C))          # C stores B's no-op (4) and nothing after it
    w = m.cut(w, B, C)
    if m.summary(w, C).last != 4:
        m.seed_shape_ok = False
    # A notices its dead connections and rejoins B
    w = m.isolate(w, A)
    w = m.do(w, ('R', A, B, 'free'))
    w = m.drain(w, only=[A, B], ticks=False)
    w = beat(m, w, B, only=[A, B], times=4)
    w = submit(m, w, B, 1, only=[A, B])
    w = beat(m, w, B, only=[A, B], times=3)
    # A is elected again by B
    w = m.do(w, ('T', A, el))
    w = m.drain(w, only=[A, B])
    w = beat(m, w, A, only=[A, B], times=3)
    if not m.summary(w, A).leader_flag:
        m.seed_shape_ok = False
    return w


def stalled_old_code(m, w, leader=N1):
    """Mixed cluster (last voter runs old code): the cluster switched to a version the old node lacks
    and committed two more commands; the old node is stalled at the switch (applied < commit)."""
    w = steady(m, w, 1, leader)
    w = m.do(w, ('V', leader, 1, 'free'), ('Z', leader))
    w = m.drain(w)
    w = beat(m, w, leader, times=3)
    w = submit(m, w, leader, 2)
    old = addr(m.cfg.n)
    s = m.summary(w, old)
    if not (s.applied < s.commit):
        m.seed_shape_ok = False
    return w


def voted(m, w, cand=N1, voter=N2):
    """`cand` is candidate, `voter` has granted its vote (answer in flight), nobody else has
    seen the request yet."""
    w = m.connect_all(w)
    w = m.do(w, ('T', cand, m.cfg.tmin + 0.001))
    w = m.do(w, ('D', cand, voter))
    return w


def dumped_voted(m, w, leader=N1, voter=N2, cand=N3):
    """`voter` joined after `leader` had been elected (it learned the term from append_entries: no vote in that
    term) and wrote its dump file while following. `leader` was restarted since and is an unconnected plain
    follower; then `cand` started an election in the next term and `voter` granted its vote (answer in flight).
    What the dump file holds must not matter for the vote."""
    w = m.connect_all(w, only=[leader, cand])
    w = elect(m, w, leader, only=[leader, cand])
    w = m.connect_all(w)
    w = beat(m, w, leader, times=3)
    w = submit(m, w, leader, 1)
    w = compact(m, w, voter)
    w = m.do(w, ('P', leader, 'free'), ('U', leader, 'free'), ('Z', leader))
    w = m.drain(w, ticks=False)
    w = m.do(w, ('T', cand, m.cfg.tmin + 0.001))
    w = m.do(w, ('D', cand, voter))
    return w


def version_snap(m, w, leader=N1, ver=1, lag=None, do_compact=True):
    """Follower `lag` cut off; the others switch to code version `ver`, run a command with it and
    the leader compacts: `lag` will catch up from a snapshot taken after the switch."""
    lag = lag or addr(m.cfg.n)
    w = steady(m, w, 0, leader)
    w = m.isolate(w, lag)
    rest = [n for n, _ in w.nodes if n != lag]
    w = m.do(w, ('V', leader, ver, 'free'), ('Z', leader))
    w = m.drain(w, only=rest)
    w = beat(m, w, leader, only=rest, times=3)
    w = submit(m, w, leader, 1, only=rest)
    if do_compact:
        w = compact(m, w, leader)
    return w


def ahead(m, w, k=1, unrep=4, lag=None, leader=N1):
    """The leader kept sending to `lag` over a connection that was already dead (only `lag` had
    noticed), so its next index for `lag` ran ahead of `lag`'s log; then it noticed and the
    connection is up again."""
    lag = lag or addr(m.cfg.n)
    w = steady(m, w, k, leader)
    for n, _ in w.nodes:
        if n != lag and n in m.summary(w, lag).connected:
            w = m.do(w, ('X', lag, n, 'free'))
    others = [n for n, _ in w.nodes if n != lag]
    w = submit(m, w, leader, unrep, only=others)
    for n in others:
        if lag in m.summary(w, n).connected:
            w = m.do(w, ('X', n, lag, 'free'))
    w = m.do(w, ('R', leader, lag, 'free'))
    w = m.drain(w, only=[leader, lag], ticks=False)
    return w


def lagging_newleader(m, w, k=1, j=2, lag=None, leader=N1, new=N2):
    """`lag` was cut off before the last j entries AND before a leader change: it will learn the
    new term from an append_entries whose previous entry it does not have."""
    w = lagging(m, w, k, j, lag, leader)
    lag = lag or addr(m.cfg.n)
    rest = [n for n, _ in w.nodes if n != lag]
    w = elect(m, w, new, only=rest)
    w = beat(m, w, new, only=rest, times=2)
    return w


def m_deposed(m, w, old=N1, new=N2, victim=N3, unnoticed=False, op='rem', pre=0, newk=1, repeat=False):
    """Membership variant of `deposed`: the cut-off old leader has appended an uncommitted
    'remove victim' (exactly one entry), the others elected `new` and committed a command."""
    w = steady(m, w, 0, old)
    if unnoticed:
        # only `old` notices the drop: the others keep sending into the void, so the new leader's
        # next index for `old` runs ahead of `old`'s log
        for n, _ in w.nodes:
            if n != old and n in m.summary(w, old).connected:
                w = m.do(w, ('X', old, n, 'free'))
    else:
        w = m.isolate(w, old)
    for _ in range(pre):     # ordinary commands in front of the membership entry in the stale tail
        w = m.do(w, ('S', old, 'free'))
    # op='add': a request to add a node that is a member already (must be refused: no entry)
    w = m.do(w, ('M', old, op, victim, 'api', 'free'), ('Z', old))
    rest = [n for n, _ in w.nodes if n != old and m.summary(w, n).alive]
    w = elect(m, w, new, only=rest)
    w = beat(m, w, new, only=rest, times=2)
    if newk:
        w = submit(m, w, new, newk, only=rest)
    if repeat:
        # the operator's retry: the new leader appends (and commits with the rest) the same request about the same
        # node, so the stale entry dropped on `old` and an entry replacing it concern the same node
        w = m.do(w, ('M', new, op, victim, 'api', 'free'), ('Z', new))
        w = m.drain(w, only=rest)
        w = beat(m, w, new, only=rest, times=2)
    return w


def m_lagsnap_added(m, w, leader=N1, lag=N3, x=N4):
    """Dynamic membership: `lag` is cut off, the others add the spare node x (spawned, caught up) and commit more
    commands, the leader compacts: `lag` learns about x only from the snapshot it will be sent."""
    w = steady(m, w, 1, leader)
    w = m.isolate(w, lag)
    rest = [n for n, _ in w.nodes if n != lag and m.summary(w, n).alive]
    w = m.do(w, ('M', leader, 'add', x, 'api', 'free'), ('Z', leader))
    w = m.do(w, ('Sp', x, leader))
    for n in rest:
        if m.can_reconnect(w, n, x):
            w = m.do(w, ('R', n, x, 'free'))
    rest = rest + [x]
    w = m.drain(w, only=rest)
    w = beat(m, w, leader, only=rest, times=4)
    w = submit(m, w, leader, 2, only=rest)
    w = compact(m, w, leader)
    if x not in m.summary(w, leader).others or m.summary(w, leader).first < 4:
        m.seed_shape_ok = False
    return w


def m_readd_lateack(m, w, leader=N1, other=N2, slow=N3, x=N4):
    """3 members + a spare node x. `slow` receives everything but its answers to the leader are held
    back from the start (so the leader still has match index 0 for it). 'add x' was committed (x spawned,
    caught up), then 'remove x' was committed and x shut down; `slow` holds both entries. The explorer
    delivers the held answers: the first one pulls the leader's next index for `slow` back, and the
    leader re-sends entries `slow` already stores, in small batches (membership entries one per message)."""
    hold = ((slow, leader),)
    hb = m.cfg.period + 0.001

    def settle(w, want_commit, tries=4):
        # heartbeats (each one adds one held answer of `slow`) only as long as needed
        for _ in range(tries):
            w = m.drain(w, skip_links=hold)
            if m.summary(w, leader).commit >= want_commit and m.summary(w, slow).commit >= want_commit:
                return w
            w = m.do(w, ('T', leader, hb))
        w = m.drain(w, skip_links=hold)
        if m.summary(w, leader).commit < want_commit:
            m.seed_shape_ok = False
        return w
    w = m.connect_all(w)
    w = m.do(w, ('T', leader, m.cfg.tmin + 0.001))
    w = settle(w, 2)
    w = m.do(w, ('M', leader, 'add', x, 'api', 'free'), ('Z', leader))
    w = m.do(w, ('Sp', x, leader))
    for n in (leader, other, slow):
        if m.can_reconnect(w, n, x):
            w = m.do(w, ('R', n, x, 'free'))
    w = settle(w, 3, tries=6)
    w = m.do(w, ('M', leader, 'rem', x, 'api', 'free'), ('Z', leader))
    w = settle(w, 4)
    w = m.do(w, ('Sd', x))
    s = m.summary(w, slow)
    if not m.summary(w, leader).leader_flag or x in s.others or not w.queue(slow, leader):
        m.seed_shape_ok = False
    return w


def split(m, w, k=0, leader=N1):
    """Even cluster cut into two halves (low ids | high ids), all links between them down."""
    w = steady(m, w, k, leader)
    ids = [n for n, _ in w.nodes if not n.startswith('o')]
    half = len(ids) // 2
    for a in ids[:half]:
        for b in ids[half:]:
            w = m.cut(w, a, b)
    return w


def battery_lagsnap(m, w, ops=(0, 1), leader=N1, lag=None, do_compact=True, pre=()):
    """`lag` is cut off, battery operations `ops` are committed by the others, the leader compacts:
    `lag` will receive the batteries through a snapshot. Operations `pre` are applied by everybody
    first, so that `lag` holds non-empty batteries when the snapshot (possibly of emptied ones) arrives."""
    lag = lag or addr(m.cfg.n)
    w = steady(m, w, 0, leader)
    for oi in pre:
        w = m.do(w, ('BO', leader, oi, 'free'), ('Z', leader))
        w = m.drain(w)
        w = beat(m, w, leader, times=3)
    w = m.isolate(w, lag)
    rest = [n for n, _ in w.nodes if n != lag]
    for oi in ops:
        w = m.do(w, ('BO', leader, oi, 'free'), ('Z', leader))
        w = m.drain(w, only=rest)
        w = beat(m, w, leader, only=rest, times=3)
    if do_compact:
        w = compact(m, w, leader)
    return w


def candidates(m, w, who=(N1, N2)):
    """Several nodes time out at the same moment: all are candidates of the same term, every vote
    request is in flight."""
    w = m.connect_all(w)
    for n in who:
        w = m.do(w, ('T', n, m.cfg.tmin + 0.001))
    return w


SEEDS = dict(dumped_voted=dumped_voted, split_vote5=split_vote5, lateack_resend=lateack_resend, late_vote5=late_vote5, m_lagsnap_added=m_lagsnap_added, deposed_runahead=deposed_runahead, forwarded_acked=forwarded_acked, m_readd_lateack=m_readd_lateack, vote_requested=vote_requested, forwarded_stale=forwarded_stale, reelected_cache3=reelected_cache3, deposed_obs=deposed_obs, voted=voted, stalled_old_code=stalled_old_code, reelected5=reelected5, stale_reset5=stale_reset5, stale_vote5=stale_vote5, stale_snapshot=stale_snapshot, ahead_full=ahead_full, fig8_full=fig8_full, candidates=candidates, battery_lagsnap=battery_lagsnap, ahead=ahead, lagging_newleader=lagging_newleader, m_deposed=m_deposed, split=split, version_snap=version_snap, fresh=fresh, steady=steady, lagging=lagging, lagging_snap=lagging_snap, deposed=deposed,
             deposed_snap=deposed_snap, deposed_twice=deposed_twice, pending=pending, reconnect_pipeline=reconnect_pipeline,
             forwarded=forwarded, fig8=fig8)


def make_prefix(seed, **kw):
    fn = SEEDS[seed]
    if kw:
        return lambda m, w: fn(m, w, **kw)
    return fn
