"""Seed states: short scripted prefixes in the explorer's own alphabet, so that every seed is a
genuinely reachable implementation state and monitors are active during the prefix."""
from mc import core
from mc.cluster import addr, World

N1, N2, N3, N4, N5 = (addr(i) for i in range(1, 6))


def fresh(m, w):
    return m.connect_all(w)


def elect(m, w, nid, only=None):
    w = m.do(w, ('T', nid, m.cfg.tmin + 0.001))
    w = m.drain(w, only=only)
    if not m.summary(w, nid).leader_flag:
        m.seed_shape_ok = False
    return w


def beat(m, w, nid, only=None, times=1):
    for _ in range(times):
        w = m.do(w, ('T', nid, m.cfg.period + 0.001))
        w = m.drain(w, only=only)
    return w


def submit(m, w, nid, count=1, only=None, settle=True):
    for _ in range(count):
        w = m.do(w, ('S', nid, 'free'))
        w = m.do(w, ('Z', nid))
    if settle:
        ld = m.leader_of(w) or nid
        w = m.drain(w, only=only)
        w = beat(m, w, ld, only=only, times=3)
    return w


def steady(m, w, k=1, leader=N1):
    w = m.connect_all(w)
    w = elect(m, w, leader)
    w = beat(m, w, leader, times=2)
    if k:
        w = submit(m, w, leader, k)
    return w


def lagging(m, w, k=1, j=2, lag=None, leader=N1):
    """Follower `lag` is cut off before the last j committed entries."""
    lag = lag or addr(m.cfg.n)
    w = steady(m, w, k, leader)
    w = m.isolate(w, lag)
    others = [n for n, _ in w.nodes if n != lag]
    w = submit(m, w, leader, j, only=others)
    return w


def compact(m, w, nid, only=None):
    w = m.do(w, ('K', nid, 'free'))
    w = m.do(w, ('Z', nid), ('Z', nid), ('Z', nid))
    return w


def lagging_snap(m, w, k=1, j=2, lag=None, leader=N1):
    w = lagging(m, w, k, j, lag, leader)
    w = compact(m, w, leader)
    return w


def deposed(m, w, k=1, tail=2, newk=1, old=N1, new=N2):
    """Old leader isolated with an uncommitted tail; the rest elected `new` and committed
    different entries. All links of `old` are down."""
    w = steady(m, w, k, old)
    w = m.isolate(w, old)
    for _ in range(tail):
        w = m.do(w, ('S', old, 'free'))
        w = m.do(w, ('Z', old))
    rest = [n for n, _ in w.nodes if n != old]
    w = elect(m, w, new, only=rest)
    w = beat(m, w, new, only=rest, times=2)
    if newk:
        w = submit(m, w, new, newk, only=rest)
    return w


def deposed_twice(m, w, k=1, tail=3, newk=3, newk2=2, old=N1, new=N2, newer=N3):
    """As deposed, then a third node takes over from `new` and appends more: the old leader's
    log conflicts several entries below the current leader's optimistic nextIndex."""
    w = deposed(m, w, k, tail, newk, old, new)
    rest = [n for n, _ in w.nodes if n != old]
    w = elect(m, w, newer, only=rest)
    w = beat(m, w, newer, only=rest, times=2)
    if newk2:
        w = submit(m, w, newer, newk2, only=rest)
    return w


def deposed_snap(m, w, k=1, tail=2, newk=2, old=N1, new=N2):
    w = deposed(m, w, k, tail, newk, old, new)
    w = compact(m, w, new)
    return w


def pending(m, w, k=0, unrep=3, leader=N1):
    """Leader holds several entries that were never sent (no heartbeat since)."""
    w = steady(m, w, k, leader)
    for _ in range(unrep):
        w = m.do(w, ('S', leader, 'free'))
    w = m.do(w, ('Z', leader))
    return w


def reconnect_pipeline(m, w, k=1, unrep=4, lag=None, leader=N1):
    """Follower cut off, leader appends several entries (optimistic nextIndex past the
    follower's end after reconnect), links down: reconnect is left to the explorer."""
    lag = lag or addr(m.cfg.n)
    w = steady(m, w, k, leader)
    w = m.isolate(w, lag)
    others = [n for n, _ in w.nodes if n != lag]
    w = submit(m, w, leader, unrep, only=others)
    return w


def forwarded(m, w, k=0, leader=N1, via=N2):
    """A follower has forwarded a command; nothing delivered yet."""
    w = steady(m, w, k, leader)
    w = m.do(w, ('S', via, 'free'))
    w = m.do(w, ('Z', via))
    return w


def fig8(m, w):
    """Raft figure 8 prefix (3 of 5 nodes or 2 of 3): an entry of an old term sits on a
    majority without being committed, while another node holds a newer-term entry."""
    # n1 leader term 1, appends x, replicates to n2 only; n3 cut.
    w = m.connect_all(w)
    w = elect(m, w, N1)
    w = beat(m, w, N1, times=2)
    w = m.isolate(w, N3)
    w = m.do(w, ('S', N1, 'free'), ('Z', N1))
    w = m.do(w, ('T', N1, m.cfg.period + 0.001))
    # deliver the append to n2 but drop the ack: cut n1 before it hears back
    w = m.do(w, ('D', N1, N2))
    w = m.cut(w, N1, N2)
    return w


def voted(m, w, cand=N1, voter=N2):
    """`cand` is candidate, `voter` has granted its vote (answer in flight), nobody else has
    seen the request yet."""
    w = m.connect_all(w)
    w = m.do(w, ('T', cand, m.cfg.tmin + 0.001))
    w = m.do(w, ('D', cand, voter))
    return w


def version_snap(m, w, leader=N1, ver=1, lag=None, do_compact=True):
    """Follower `lag` cut off; the others switch to code version `ver`, run a command with it and
    the leader compacts: `lag` will catch up from a snapshot taken after the switch."""
    lag = lag or addr(m.cfg.n)
    w = steady(m, w, 0, leader)
    w = m.isolate(w, lag)
    rest = [n for n, _ in w.nodes if n != lag]
    w = m.do(w, ('V', leader, ver, 'free'), ('Z', leader))
    w = m.drain(w, only=rest)
    w = beat(m, w, leader, only=rest, times=3)
    w = submit(m, w, leader, 1, only=rest)
    if do_compact:
        w = compact(m, w, leader)
    return w


SEEDS = dict(voted=voted, version_snap=version_snap, fresh=fresh, steady=steady, lagging=lagging, lagging_snap=lagging_snap, deposed=deposed,
             deposed_snap=deposed_snap, deposed_twice=deposed_twice, pending=pending, reconnect_pipeline=reconnect_pipeline,
             forwarded=forwarded, fig8=fig8)


def make_prefix(seed, **kw):
    fn = SEEDS[seed]
    if kw:
        return lambda m, w: fn(m, w, **kw)
    return fn
