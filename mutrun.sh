#!/bin/bash
# usage: mutrun.sh <patchfile|-e sedexpr file> -- <check args...>   : run a check against a mutated scratch copy of /repo
set -e
D=$(mktemp -d /tmp/mutrepo.XXXXXX)
cp -r /repo/pysyncobj $D/pysyncobj
if [ "$1" = "-e" ]; then sed -i "$2" $D/$3; shift 3; else (cd $D && patch -p1 -s < "$1"); shift; fi
[ "$1" = "--" ] && shift
(cd /repo && diff -ru pysyncobj $D/pysyncobj | grep '^[-+]' | grep -v '^[-+][-+]' | head -6) || true
cd /verif
VERIF_REPO=$D ./check "$@" 2>&1 | grep -E "VIOLATION|KNOWN|tier=|HARNESS|Error" | cut -c1-400
rm -rf $D
